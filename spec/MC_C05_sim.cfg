INIT Init
NEXT Next
CONSTANTS
  Shapes <- cShapes
  SymNames <- cSyms
  NameSeq <- cNoSeq
  SensorNames <- cSensors
  ReadingNames <- cReadings
  Ops <- cOpsRat
  Consts <- cConsts
  MinGrow = 2
  MaxGrow = 5
  NPoints = 2
  Vals <- cValsInt
  Dts <- cDts
  CalVals <- cCalVals
  PNoiseVals <- cPNoise
  SNoiseVals <- cSNoise
  Ks <- cKsNone
  PDiag <- cPDiag
  PVec <- cPVec
  ZDeltas <- cZDeltas
  Acts <- cActsUpdate
  MinSteps = 3
  MaxSteps = 5
  RationalOnly = TRUE
  Twins = FALSE
  SetOnce = FALSE
  Chain = FALSE
  NeedDt = FALSE
  BindLeaves = TRUE
  EmitOn = TRUE
INVARIANT InvCovValid
INVARIANT InvUpdate
INVARIANT InvRescale
INVARIANT InvScaleCov
INVARIANT InvReject
INVARIANT InvNisNonNeg
INVARIANT InvSPD
CHECK_DEADLOCK FALSE
