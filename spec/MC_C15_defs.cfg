INIT Init
NEXT Next
CONSTANTS
  Shapes <- cShapes
  SymNames <- cSymsCluster
  NameSeq <- cNoSeq
  SensorNames <- cSensors
  ReadingNames <- cReadings
  Ops <- cOpsRat
  Consts <- cConsts
  MinGrow = 2
  MaxGrow = 5
  NPoints = 2
  Vals <- cValsInt
  Dts <- cDts
  CalVals <- cCalVals
  PNoiseVals <- cPNoise
  SNoiseVals <- cSNoise
  Ks <- cKsNone
  PDiag <- cPDiag
  PVec <- cPVec
  ZDeltas <- cZDeltas
  Acts <- cActsNone
  MinSteps = 0
  MaxSteps = 0
  RationalOnly = TRUE
  Twins = FALSE
  SetOnce = FALSE
  Chain = FALSE
  NeedDt = FALSE
  BindLeaves = TRUE
  EmitOn = TRUE
INVARIANT InvCovValid
INVARIANT InvUpdate
INVARIANT InvReject
INVARIANT InvNisNonNeg
INVARIANT InvSPD
CHECK_DEADLOCK FALSE
