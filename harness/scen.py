"""Scenario generation (TLC) + Python replay, shared by the numeric checks C01, C03, C04, C05 ..."""
import json
import random

import findings
import tlc
import workers
from build import Definition, interp, named, fl, is_rat, is_rational_tree
from common import sha


def generate(ctx, module_e, module_sim, sim_num, sim_depth, e_sample=None, sim_workers=8, e_timeout=900,
             sim_timeout=900, required_actions=None):
    """Run the exhaustive config (if any) and the simulate config; return (scenarios, stats)."""
    stats = {"states": 0, "transitions": 0, "tlc_runs": []}
    scns = []
    rnd = random.Random(ctx.seed)
    def _mc(m):
        return (m, None) if isinstance(m, str) else m
    if module_e:
        module_e, cfg_e = _mc(module_e)
        r = tlc.run(module_e, cfg=cfg_e, workers=ctx.cores, timeout=e_timeout, coverage=bool(required_actions))
        if r.violation:
            return None, {"tlc_violation": r.violation, "module": module_e}
        if required_actions:
            missing = tlc.check_coverage(r, required_actions)
            if missing:
                raise tlc.TLCError("vacuity: actions never taken in %s: %s" % (module_e, missing))
        stats["states"] += r.distinct
        stats["transitions"] += r.states
        stats["tlc_runs"].append({"module": cfg_e or module_e, "mode": "exhaustive", **r.summary()})
        stats["exhaustive_scenarios"] = len(r.printed)
        es = r.printed
        if e_sample is not None and len(es) > e_sample:
            es = rnd.sample(es, e_sample)
            stats["exhaustive_replayed_all"] = False
        else:
            stats["exhaustive_replayed_all"] = True
        for s in es:
            s["_src"] = "E"
        scns += es
        ctx.log("TLC %s: %d distinct states, %d scenarios (%d kept) in %.1fs" %
                (module_e, r.distinct, len(r.printed), len(es), r.wall_s))
    if module_sim and sim_num > 0:
        per = max(1, sim_num // sim_workers)
        module_sim, cfg_sim = _mc(module_sim)
        r = None
        for attempt in range(3):
            try:
                r = tlc.run(module_sim, cfg=cfg_sim, mode="sim", workers=sim_workers, num=per, depth=sim_depth,
                            seed=ctx.seed + 1 + 7919 * attempt, timeout=sim_timeout)
                break
            except tlc.TLCError as e:
                # an arithmetic overflow inside TLC is machinery, not a verdict: re-draw the behaviours
                if "Overflow" not in str(e) or attempt == 2:
                    raise
                ctx.notes.append("TLC overflow in %s (seed attempt %d), behaviours re-drawn" % (cfg_sim or module_sim, attempt))
        if r.violation:
            return None, {"tlc_violation": r.violation, "module": module_sim}
        stats["states"] += r.states      # simulation: states visited along behaviours
        stats["transitions"] += r.states
        stats["tlc_runs"].append({"module": cfg_sim or module_sim, "mode": "simulate", "behaviours": r.traces, **r.summary()})
        for s in r.printed:
            s["_src"] = "S"
        scns += r.printed
        ctx.log("TLC %s simulate: %d behaviours, %d scenarios in %.1fs" % (module_sim, r.traces, len(r.printed), r.wall_s))
    # de-duplicate by content
    seen = set()
    out = []
    for s in scns:
        h = sha({k: v for k, v in s.items() if k != "_src"})
        if h in seen:
            continue
        seen.add(h)
        s["_id"] = h
        out.append(s)
    return out, stats


def cross_validate_interp(scns):
    """The harness interpreter is trusted only for fn trees.  On the rational fragment it is checked
    against TLC's exact values here, on every run.  Returns (checked, disagreements)."""
    checked = 0
    bad = []
    for s in scns:
        d = Definition(s["def"])
        cal = {c: fl(d.calmap[c]) for c in d.calib}
        for st in s["steps"]:
            if st["act"] != "ModelEval":
                continue
            env = dict(cal)
            env.update({n: fl(q) for n, q in named(st["x"]).items()})
            env.update({n: fl(q) for n, q in named(st["u"]).items()})
            env["dt"] = fl(st["dt"])
            for n, q in named(st["xn"]).items():
                if is_rat(q) and is_rational_tree(d.update[n]):
                    try:
                        v = interp(d.update[n], env)
                    except Exception as e:
                        bad.append((s["_id"], n, repr(e)))
                        continue
                    checked += 1
                    if abs(v - fl(q)) > 1e-9 * max(1.0, abs(fl(q))):
                        bad.append((s["_id"], n, v, q))
    return checked, bad


def replay_all(ctx, scns, cse_settings=(False, True), timeout=90, force_ekf=False, presentation="random"):
    """Replay every scenario under every CSE setting.  Returns list of (scn, cse, status, result)."""
    tasks = []
    index = []
    for s in scns:
        clean = {k: v for k, v in s.items() if not k.startswith("_")}
        for cse in cse_settings:
            # every scenario is written down in its own (seeded) random presentation: declaration order per role, container,
            # proactive_simplify -- the abstract definition, and therefore every named expectation, is the same
            pres = ("random:%s:%s:%s" % (ctx.seed, s.get("_id", ""), cse)) if presentation == "random" else presentation
            tasks.append(("tasks", "py_replay", (clean, cse, pres, force_ekf), timeout))
            index.append((s, cse))
    ctx.log("replaying %d scenarios x %d CSE settings into the Python implementation" % (len(scns), len(cse_settings)))
    results = workers.run_tasks(tasks, procs=ctx.cores)
    out = []
    for (s, cse), (status, res) in zip(index, results):
        out.append((s, cse, status, res))
    return out


def summarise(scn):
    d = scn["def"]
    return {"id": scn.get("_id"), "src": scn.get("_src"), "state": d["state"], "control": d["control"],
            "calib": d["calib"], "update": {k: _txt(v) for k, v in named(d["update"]).items()},
            "sensors": {k: {r: _txt(t) for r, t in named(v).items()} for k, v in named(d["sensors"]).items()},
            "steps": [st["act"] for st in scn["steps"]]}


def _txt(e):
    from build import to_text
    return to_text(e)


def record_results(ctx, results, key_prefix=""):
    """Turn replay results into violations / dropped counters.  Returns counters."""
    n_ok = n_val = n_steps = 0
    for s, cse, status, res in results:
        if status == "timeout":
            ctx.dropped += 1
            continue
        if status == "error":
            ctx.dropped += 1
            ctx.notes.append("harness error: " + str(res)[-300:])
            continue
        if res["skipped"]:
            ctx.dropped += 1
            continue
        n_val += res["values"]
        n_steps += res["steps"]
        if not res["mismatches"]:
            n_ok += 1
            continue
        m = res["mismatches"][0]
        if m["what"] == "exception":
            exc = str(m["observed"]).split("(")[0]
            key = "%s%s:exception:%s" % (key_prefix, m["name"], exc)
        else:
            key = "%s%s" % (key_prefix, m["what"])
        if findings.attributed(s, res["mismatches"]):
            key = findings.KEY        # the recorded, unrepaired finding F1 (known_findings.json); anything else keeps its own key
        ctx.violation(key, "%scse=%s step=%s %s name=%s expected=%s observed=%s" %
                      (key_prefix, cse, m["step"], m["what"], m["name"], m["expected"], m["observed"]),
                      {"scenario": {k: v for k, v in s.items() if not k.startswith("_")}, "cse": cse,
                       "mismatches": res["mismatches"][:10]})
    return {"replays_ok": n_ok, "values_compared": n_val, "steps_replayed": n_steps}
