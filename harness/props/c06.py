"""C06 -- a reading is discarded iff NIS > k*sqrt(2m)+m; a discard changes nothing."""
import json

import numeric


def _post(ctx, scns, results):
    """after the Python replay: the same behaviours in the generated C++ filter, then the helper / boundary agreement"""
    import cppcheck
    n = 10 if ctx.quick else 200
    # cover every editing threshold (it is rendered into the generated Config) with behaviours that contain a rejected update
    byk = {}
    for s_ in scns:
        if any(st.get("outcome") == "rejected" for st in s_["steps"]):
            byk.setdefault(json.dumps(s_["def"]["k"]), []).append(s_)
    pick = []
    for r in range(3):
        for k_, lst in sorted(byk.items()):
            if r < len(lst) and len(pick) < n:
                pick.append(lst[r])
    pick += [s_ for s_ in scns if s_ not in pick][: max(0, n - len(pick))]
    rc = cppcheck.replay_cpp(ctx, pick, cse_settings=(True,), kind="ekf")
    extra = cppcheck.record(ctx, rc, key_prefix="cpp:")
    extra.update(gate_agreement(ctx))
    return extra


REPO_ASSUME = ("thorough tier: every model / filter call the repository's own test-suite executes is recorded (pytest plugin, /repo untouched), "
               "projected against the Jacobian trees Derive.tla derives from the recorded definition, and validated by EKFCalls_Trace.tla")


def run(ctx):
    return numeric.run_numeric(
        ctx, sim=("MC_EKF", "MC_C06_sim.cfg"), sim_num_quick=64, sim_num_thorough=2400, post=_post,
        rule="behaviour = definition + SetEstimate/Update sequence with editing threshold k in {None, 1/2, 1, 3, 5}; the spec decides "
             "the gate exactly ((nis-m)^2 > 2 m k^2, no square root) and a rejected update must leave state and covariance "
             "bit-identical while the innovation is still recorded",
        scope="simulation: 1-3 sensors of 1-3 readings, reading offsets on both sides of the boundary",
        assumptions=numeric.BASE_ASSUME + [REPO_ASSUME], repo_tests=True)


def replay(ctx, path):
    return numeric.replay_file(ctx, path)


# ---------------------------------------------------------------- gate agreement (helper, boundary) ----
def _py_decisions(mods, cases):
    """python: ExtendedKalmanFilter.remove_innovation on a tiny real filter configured with threshold k"""
    import numpy as np
    ui, python = mods["ui"], mods["python"]
    x, dt = ui.Symbol("x"), ui.Symbol("dt")
    model = ui.Model(dt=dt, state={x}, control=set(), state_model={x: x})
    cache = {}
    out = []
    for c in cases:
        k = c["k"]
        if k not in cache:
            cache[k] = python.compile_ekf(model, {}, {"s": {"r": x}}, {"s": {"r": 1.0}}, config={"innovation_filtering": k, "common_subexpression_elimination": False})
        y = np.array(c["y"], dtype=float).reshape((len(c["y"]), 1))
        S = np.array(c["sinv"], dtype=float).reshape((len(c["y"]), len(c["y"])))
        try:
            out.append(bool(cache[k].remove_innovation(y, S)))
        except Exception as e:
            out.append("exception:" + type(e).__name__)
    return out


def _cpp_decisions(ctx, cases):
    import os
    import cppbuild
    exe = os.path.join(ctx.work, "gate_driver")
    ok, err = cppbuild.compile_one({"sources": ["/verif/cxx/gate_driver.cpp"], "out": exe})
    if not ok:
        return None, err
    lines = []
    for c in cases:
        vals = [float(c["k"]).hex()] + [float(v).hex() for v in c["y"]] + [float(v).hex() for v in c["sinv"]]
        lines.append("%d %s" % (len(c["y"]), " ".join(vals)))
    rc, so, se = cppbuild.run_exe(exe, "\n".join(lines) + "\n", timeout=300)
    if rc != 0:
        raise RuntimeError("gate driver exit %d %s" % (rc, se[-300:]))
    out = {}
    for line in so.splitlines():
        t = line.split()
        if t and t[0] == "D":
            out[int(t[1])] = bool(int(t[2]))
    return [out.get(i + 1) for i in range(len(cases))], None


def gate_agreement(ctx):
    """(c) exact cases incl. the boundary from GateCases.tla; (d) +-8 ulp band for m = 1 validated by Gate_Trace.tla"""
    import math
    import random
    from fractions import Fraction
    import tlc
    import trace
    import workers
    from build import fl
    r = tlc.run("MC_GateCases", cfg=("MC_GateCases_q.cfg" if ctx.quick else "MC_GateCases.cfg"), workers=ctx.cores, timeout=900)
    if r.violation:
        ctx.violation("spec-invariant", r.violation[:600], {})
    cases = []
    for s in r.printed:
        m = s["m"]
        sinv = [0.0] * (m * m)
        for i in range(m):
            sinv[i * m + i] = fl(s["sdiag"][i])
        cases.append({"k": fl(s["k"]), "y": [fl(q) for q in s["y"]], "sinv": sinv, "discard": bool(s["discard"]), "boundary": bool(s["boundary"]), "spec": s})
    # python in the pool, c++ in one process
    chunks = [cases[i::ctx.cores] for i in range(ctx.cores)]
    chunks = [c for c in chunks if c]
    res = workers.run_tasks([("props.c06", "_py_decisions", ([{k: v for k, v in c.items() if k != "spec"} for c in ch],), 600) for ch in chunks], procs=ctx.cores)
    py = {}
    for ch, (status, out) in zip(chunks, res):
        if status != "ok":
            raise RuntimeError(out)
        for c, o in zip(ch, out):
            py[id(c)] = o
    cpp, err = _cpp_decisions(ctx, cases)
    if cpp is None:
        ctx.violation("cpp-helper:build-failed", err[-600:], {})
        cpp = [None] * len(cases)
    nb = 0
    for c, dc in zip(cases, cpp):
        nb += 1 if c["boundary"] else 0
        dp = py[id(c)]
        tag = "boundary" if c["boundary"] else "m=%d" % len(c["y"])
        if dp != c["discard"]:
            ctx.violation("gate:python:%s" % tag, "m=%d k=%s nis=%s: spec says %s, python remove_innovation says %s" %
                          (len(c["y"]), c["k"], c["spec"]["nis"], c["discard"], dp), {"case": c["spec"], "python": dp, "cpp": dc})
        if dc is not None and dc != c["discard"]:
            ctx.violation("gate:cpp-helper:%s" % tag, "m=%d k=%s nis=%s: spec says %s, removeInnovation says %s" %
                          (len(c["y"]), c["k"], c["spec"]["nis"], c["discard"], dc), {"case": c["spec"], "python": dp, "cpp": dc})
    # (d) ulp band: the normalised innovation is placed EXACTLY on the floating-point threshold fl(k*sqrt(2m)+m) and a few ulps
    #     around it, for m = 1, 2, 3, 5, 7.  y = e_1 and Sinv[0][0] = nis make every implementation compute exactly `nis`.
    rnd = random.Random(ctx.seed)
    band = []
    for _ in range(300 if ctx.quick else 5000):
        k = rnd.choice([0.5, 1.0, 2.0, 2.5, 3.0, 4.0, 5.0, 7.25])
        m = rnd.choice([1, 2, 3, 5, 7])
        thr = k * math.sqrt(2.0 * m) + m
        nis = thr
        steps = rnd.randint(-6, 6)
        for _i in range(abs(steps)):
            nis = math.nextafter(nis, math.inf if steps > 0 else -math.inf)
        # exact real-number verdict: nis - m > k sqrt(2m)  <=>  e > 0 and e^2 > 2 m k^2
        def verdict(v):
            e = Fraction(v) - m
            return e > 0 and e * e > 2 * m * Fraction(k) ** 2
        real = verdict(nis)
        dist = 40
        vv = nis
        for dd in range(1, 40):
            vv = math.nextafter(vv, -math.inf if real else math.inf)
            if verdict(vv) != real:
                dist = dd
                break
        y = [1.0] + [0.0] * (m - 1)
        sinv = [0.0] * (m * m)
        for i in range(m):
            sinv[i * m + i] = 1.0
        sinv[0] = nis
        band.append({"k": k, "y": y, "sinv": sinv, "real": real, "dist_ulps": dist if real else -dist, "m": m, "nis": nis})
    res = workers.run_tasks([("props.c06", "_py_decisions", (band,), 600)], procs=1)
    pyb = res[0][1]
    cppb, err = _cpp_decisions(ctx, band)
    traces = [[{"dist_ulps": b["dist_ulps"], "real": b["real"], "decisions": [p, c]}] for b, p, c in zip(band, pyb, cppb or [None] * len(band)) if c is not None and isinstance(p, bool)]
    verdicts, tres = trace.validate("Gate_Trace", traces)
    for b, t, v in zip(band, traces, verdicts):
        if v is not None:
            ctx.violation("gate:ulp-band", "m=%d k=%s nis=%r (%d ulps from the boundary, real verdict %s): decisions python=%s c++=%s" %
                          (b["m"], b["k"], b["nis"], b["dist_ulps"], b["real"], t[0]["decisions"][0], t[0]["decisions"][1]), {"event": t[0], "case": b})
    inband = sum(1 for b in band if abs(b["dist_ulps"]) <= 2)
    return {"gate_cases": len(cases), "gate_boundary_cases": nb, "ulp_band_events": len(traces), "ulp_events_inside_band": inband,
            "gate_states": r.distinct}
