------------------------------ MODULE Gate_Trace ------------------------------
(***************************************************************************)
(* C06 near the decision boundary (m = 1, irrational threshold): each      *)
(* event records, for one (k, z, s): the exact real-number verdict, the    *)
(* distance of z to the boundary in ulps (computed exactly by the          *)
(* projection with Fractions) and the decisions of the implementations.    *)
(* Outside a +-2 ulp band every decision must equal the real verdict;      *)
(* inside the band (where a correct implementation may round either way)   *)
(* the decisions must be EQUAL TO EACH OTHER.                              *)
(***************************************************************************)
EXTENDS Integers, Sequences, TLC, Json, IOUtils, TLCExt
Traces == JsonDeserialize(IOEnv.TRACE_FILE)
VARIABLES tid, l
ASSUME \A t \in 1..Len(Traces) : TLCSet(t, 0)
Ev == Traces[tid][l]
AbsI(x) == IF x < 0 THEN -x ELSE x
Band == 2
EventOK(e) ==
  IF AbsI(e.dist_ulps) > Band
  THEN \A i \in DOMAIN e.decisions : e.decisions[i] = e.real
  ELSE \A i, j \in DOMAIN e.decisions : e.decisions[i] = e.decisions[j]
TInit == tid \in 1..Len(Traces) /\ l = 1
TNext == l <= Len(Traces[tid]) /\ EventOK(Ev) /\ l' = l + 1 /\ UNCHANGED tid
Reach == TLCSet(tid, IF TLCGet(tid) < l THEN l ELSE TLCGet(tid))
Post == \A t \in 1..Len(Traces) :
          IF TLCGet(t) = Len(Traces[t]) + 1 THEN PrintT(<<"ACCEPT", t>>)
          ELSE PrintT(<<"REJECT", t, TLCGet(t)>>)
=============================================================================
