// Recording stand-in filter driven through the REAL cpp/runtime/include/formak/runtime/ManagedFilter.h.
// An estimate is the sequence of calls applied so far (the free monoid of calls of ManagedFilter.tla).
//
// Build:  g++ -std=c++20 -DHAS_CONTROL=0|1 -DHAS_CALIBRATION=0|1 -I/repo/cpp/runtime/include mf_driver.cpp
// Input (stdin):   SCN <maxN> <t0> <nticks> / TICK <out> <ctl> <nreadings> / R <t> <keyIdx> <id>
//                  (times in units; 1 unit = UNIT seconds, given as argv[1], default 2^-10)
// Output:          RET <scn> <tick> : P <hexfloat dt> <c> | S <keyIdx> <id> ...
#include <formak/runtime/ManagedFilter.h>

#include <cstdio>
#include <cstdlib>
#include <memory>
#include <string>
#include <type_traits>
#include <vector>

#ifndef HAS_CONTROL
#define HAS_CONTROL 1
#endif
#ifndef HAS_CALIBRATION
#define HAS_CALIBRATION 1
#endif
#ifndef UNIT_SCALE
#define UNIT_SCALE (1.0 / 1024.0)
#endif

struct Op {
  char kind;
  double dt;
  int c;    // control token (P) / key index (S)
  int id;   // reading id (S)
};
struct Est {
  std::vector<Op> hist;
};
struct CalT {
  int token = 0;
};
struct CtlT {
  int c = 0;
};

template <int MAXN>
struct RecImpl;

template <int MAXN>
struct ReadingBase {
#if HAS_CALIBRATION
  virtual Est sensor_model(const RecImpl<MAXN>& impl, const Est& state, const CalT& cal) const = 0;
#else
  virtual Est sensor_model(const RecImpl<MAXN>& impl, const Est& state) const = 0;
#endif
  virtual ~ReadingBase() = default;
};

template <int MAXN>
struct RecImpl {
  struct Tag {
    using StateAndVarianceT = Est;
#if HAS_CALIBRATION
    using CalibrationT = CalT;
#else
    using CalibrationT = std::false_type;
#endif
#if HAS_CONTROL
    using ControlT = CtlT;
#else
    using ControlT = std::false_type;
#endif
    using StampedReadingBaseT = ReadingBase<MAXN>;
    static constexpr double max_dt_sec = MAXN * UNIT_SCALE;
  };

  // exactly the signatures FormaK generates for each control x calibration combination
#if HAS_CALIBRATION && HAS_CONTROL
  Est process_model(double dt, const Est& s, const CalT& cal, const CtlT& u) const {
    Est n = s;
    n.hist.push_back(Op{cal.token == 77 ? 'P' : 'X', dt, u.c, 0});
    return n;
  }
#elif HAS_CALIBRATION
  Est process_model(double dt, const Est& s, const CalT& cal) const {
    Est n = s;
    n.hist.push_back(Op{cal.token == 77 ? 'P' : 'X', dt, 0, 0});
    return n;
  }
#elif HAS_CONTROL
  Est process_model(double dt, const Est& s, const CtlT& u) const {
    Est n = s;
    n.hist.push_back(Op{'P', dt, u.c, 0});
    return n;
  }
#else
  Est process_model(double dt, const Est& s) const {
    Est n = s;
    n.hist.push_back(Op{'P', dt, 0, 0});
    return n;
  }
#endif
};

template <int MAXN>
struct Reading : ReadingBase<MAXN> {
  int key = 0;
  int id = 0;
#if HAS_CALIBRATION
  Est sensor_model(const RecImpl<MAXN>&, const Est& state, const CalT& cal) const override {
    Est n = state;
    n.hist.push_back(Op{cal.token == 77 ? 'S' : 'Y', 0.0, key, id});
    return n;
  }
#else
  Est sensor_model(const RecImpl<MAXN>&, const Est& state) const override {
    Est n = state;
    n.hist.push_back(Op{'S', 0.0, key, id});
    return n;
  }
#endif
};

struct TickIn {
  long out;
  int ctl;
  struct R {
    long t;
    int key;
    int id;
  };
  std::vector<R> rs;
};

static void print_ret(int scn, int tick, const Est& e) {
  std::printf("RET %d %d :", scn, tick);
  for (const Op& op : e.hist) {
    if (op.kind == 'P' || op.kind == 'X') {
      std::printf(" %c %a %d", op.kind, op.dt, op.c);
    } else {
      std::printf(" %c %d %d", op.kind, op.c, op.id);
    }
  }
  std::printf("\n");
}

static double g_offset = 0.0;   // seconds added to every time (argv[1]); exactly representable shifts only

template <int MAXN>
static void run_scn(int scn, long t0, const std::vector<TickIn>& ticks, double unit) {
  using MF = formak::runtime::ManagedFilter<RecImpl<MAXN>>;
  static_assert(MF::compatible);
#if HAS_CALIBRATION
  MF mf(t0 * unit + g_offset, Est{}, CalT{77});
#else
  MF mf(t0 * unit + g_offset, Est{});
#endif
  int ti = 0;
  for (const TickIn& tk : ticks) {
    ++ti;
#if HAS_CONTROL
    if (!tk.ctl) continue;  // cannot be expressed: rejected at compile time (negative compile test)
#endif
    std::vector<typename MF::StampedReading> rs;
    std::vector<int> ids;
    for (const auto& r : tk.rs) {
      // a reading OBJECT listed twice (same id): the very same StampedReading (shared data) is listed again
      bool repeated = false;
      for (size_t k = 0; k < ids.size(); ++k) {
        if (ids[k] == r.id) {
          typename MF::StampedReading again = rs[k];
          rs.push_back(again);
          repeated = true;
          break;
        }
      }
      ids.push_back(r.id);
      if (repeated) continue;
      Reading<MAXN> rd;
      rd.key = r.key;
      rd.id = r.id;
      rs.push_back(MF::wrap(r.t * unit + g_offset, rd));
    }
    Est ret;
#if HAS_CONTROL
    CtlT u{ti};
    if (rs.empty() && (ti % 2 == 0)) {
      ret = mf.tick(tk.out * unit + g_offset, u);
    } else {
      ret = mf.tick(tk.out * unit + g_offset, u, rs);
    }
#else
    if (rs.empty() && (ti % 2 == 0)) {
      ret = mf.tick(tk.out * unit + g_offset);
    } else {
      ret = mf.tick(tk.out * unit + g_offset, rs);
    }
#endif
    print_ret(scn, ti, ret);
  }
}

int main(int argc, char** argv) {
  double unit = UNIT_SCALE;
  if (argc > 1) g_offset = std::strtod(argv[1], nullptr);
  char tag[16];
  int scn = 0;
  while (std::scanf("%15s", tag) == 1) {
    if (std::string(tag) != "SCN") return 3;
    int maxn, nticks;
    long t0;
    if (std::scanf("%d %ld %d", &maxn, &t0, &nticks) != 3) return 3;
    std::vector<TickIn> ticks;
    for (int i = 0; i < nticks; ++i) {
      TickIn tk;
      int nr;
      if (std::scanf("%15s %ld %d %d", tag, &tk.out, &tk.ctl, &nr) != 4) return 3;
      for (int j = 0; j < nr; ++j) {
        TickIn::R r;
        if (std::scanf("%15s %ld %d %d", tag, &r.t, &r.key, &r.id) != 4) return 3;
        tk.rs.push_back(r);
      }
      ticks.push_back(tk);
    }
    ++scn;
    switch (maxn) {
#define CASE(N) \
  case N:       \
    run_scn<N>(scn, t0, ticks, unit); \
    break;
#ifndef MAXN_LIST
#define MAXN_LIST(X) X(1) X(2) X(3) X(5) X(7) X(9) X(16) X(64)
#endif
      MAXN_LIST(CASE)
      default:
        std::printf("SKIP %d\n", scn);
    }
  }
  return 0;
}
