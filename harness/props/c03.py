"""C03 -- Python filter Jacobians are the true partial derivatives, laid out by name."""
import numeric


def run(ctx):
    return numeric.run_numeric(
        ctx, sim=("MC_EKF", "MC_C03_sim.cfg"), sim_num_quick=96, sim_num_thorough=2400,
        rule="program = definition incl. sensors; non-trivial = shared sub-term or >= 2 symbols; for every program the process, "
             "control and sensor Jacobians are evaluated at 3 points with CSE off/on and every entry (row name, column name) "
             "compared with Eval(Diff(tree)) computed by TLC (reference interpreter on the derivative TREE for elementary functions)",
        scope="simulation: 1-3 states, 0-2 controls, 0-2 calibrations, 1-3 sensors of 1-3 readings (rectangular), <= 7 grown nodes, 14 operators",
        assumptions=numeric.BASE_ASSUME + ["Diff (Expr.tla) is the symbolic derivative; its tree is evaluated exactly by TLC"],
        corpus=["/verif/corpus/F1_acos_tanh8.json"], extra_sims=[(("MC_EKF", "MC_C03cal_sim.cfg"), 48)])


def replay(ctx, path):
    return numeric.replay_file(ctx, path)
