"""code -> spec trace validation: a batch of recorded traces is handed to a *_Trace.tla specification;
TLC decides per trace whether it is a behaviour of the specification (DESIGN 3.3)."""
import json
import os
import re
import tempfile

import tlc

_ACC = re.compile(r'<<"(ACCEPT|REJECT)", (\d+)(?:, (\d+))?>>')


def validate(module, traces, cfg=None, timeout=900, extra_files=None, dfs=False):
    """traces: list of lists of event dicts.  Returns (verdicts, tlc_result) with verdicts[i] =
    None if accepted, else index (0-based) of the first event that could not be matched."""
    if not traces:
        return [], None
    fd, path = tempfile.mkstemp(prefix="verif-trace-", suffix=".json")
    try:
        with os.fdopen(fd, "w") as fh:
            json.dump(traces, fh)
        res = tlc.run(module, cfg=cfg, workers=1, timeout=timeout, extra_env={"TRACE_FILE": path},
                      extra_files=extra_files, dfs_queue=dfs)
    finally:
        os.unlink(path)
    if res.violation and "ACCEPT" not in res.output and "REJECT" not in res.output:
        raise tlc.TLCError("trace validation run failed: " + res.violation[:800])
    verdicts = [None] * len(traces)
    seen = set()
    for line in res.output.splitlines():
        m = _ACC.search(line)
        if not m:
            continue
        t = int(m.group(2)) - 1
        seen.add(t)
        if m.group(1) == "REJECT":
            reached = int(m.group(3))          # highest l reached: events 1..reached-1 matched
            verdicts[t] = max(0, reached - 1)
    if len(seen) != len(traces):
        raise tlc.TLCError("trace validation: verdict missing for %d traces" % (len(traces) - len(seen)))
    return verdicts, res
