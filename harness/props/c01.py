"""C01 -- compiled Python model computes exactly the user's symbolic state model."""
import json

import scen
from build import Definition
from common import finish


def run(ctx):
    quick = ctx.quick
    scns, stats = scen.generate(ctx, "MC_C01_E", "MC_C01_sim",
                                sim_num=(96 if quick else 3200), sim_depth=60,
                                e_sample=(120 if quick else None))
    if scns is None:
        ctx.violation("spec-invariant", stats["tlc_violation"][:500], stats)
        return finish(ctx, "model_checking", {"states": 1, "transitions": 1, "traces_validated_against_impl": 0,
                                              "samples": [stats]}, [])
    # a user-supplied function inside sub-terms shared by several update expressions (chained growth over + * sat)
    more, st2 = scen.generate(ctx, None, ("MC_EKF", "MC_C01usat_sim.cfg"), sim_num=(16 if quick else 200), sim_depth=100)
    if more is None:
        ctx.violation("spec-invariant", st2["tlc_violation"][:500], st2)
    else:
        more = [m for m in more if not m["def"]["control"] or True]
        for m in more:
            m["steps"] = [st for st in m["steps"] if st["act"] == "ModelEval"]
        scns += [m for m in more if m["steps"]]
        stats["states"] += st2.get("states", 0)
        stats["transitions"] += st2.get("transitions", 0)
        stats["tlc_runs"] = stats.get("tlc_runs", []) + st2.get("tlc_runs", [])
    checked, bad = scen.cross_validate_interp(scns)
    if bad:
        raise RuntimeError("reference interpreter disagrees with TLC on the rational fragment: %r" % (bad[:3],))
    results = scen.replay_all(ctx, scns, cse_settings=(False, True))
    counters = scen.record_results(ctx, results)
    defs = {}
    for s in scns:
        d = Definition(s["def"])
        defs[d.canonical()] = d.nontrivial()
    cov = {
        "states": stats["states"], "transitions": stats["transitions"],
        "traces_validated_against_impl": len(scns),
        "samples": [scen.summarise(s) for s in scns[:2]] + [scen.summarise(s) for s in scns[-2:]],
        "programs": len(defs), "distinct_nontrivial": sum(1 for v in defs.values() if v),
        "evaluations": counters["values_compared"],
        "rule": "program = definition (symbol roles + update trees); non-trivial = some non-leaf sub-term occurs "
                "twice across the update trees (CSE target) or >= 2 distinct symbols are used; each program is "
                "compiled with CSE off and on and every named output compared with TLC's exact rational "
                "(or the reference interpreter for trees with elementary functions)",
        "exhaustive": bool(stats.get("exhaustive_replayed_all")),
        "exhaustive_scope": "MC_C01_E: all definitions with 1-2 states, 0-1 control, 0-1 calibration, <=1 grown node over 14 operators",
        "interp_cross_checked_values": checked,
        "tlc_runs": stats["tlc_runs"], **counters,
    }
    if not quick:
        import repotests          # the repository's own tests, recorded and validated against EKFCalls.tla
        cov["repo_tests"] = repotests.run(ctx, "C01")
    return finish(ctx, "model_checking", cov,
                  ["TLC's exact rational arithmetic (Rational.tla) is the oracle on the rational fragment",
                   "reference interpreter over Python math for elementary functions, cross-checked against TLC on every run",
                   "tolerance 1e-9 relative to max(1,|exact|); inputs small integers / dyadic rationals"])


def replay(ctx, path):
    body = json.load(open(path))
    s = body["payload"]["scenario"]
    s["_id"] = "replay"
    results = scen.replay_all(ctx, [s], cse_settings=(body["payload"].get("cse", True),))
    scen.record_results(ctx, results)
    for v in ctx.violations:
        print("VIOLATION property=%s replay=%s" % (ctx.prop, path))
        print("  " + v["detail"])
        return 1
    print("replay: no violation")
    return 0
