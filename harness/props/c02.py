"""C02 -- generated C++ computes the symbolic model, its derivatives and noise matrices."""
import json

import cppcheck
import scen
from build import Definition
from common import finish

LEVEL = "model_checking"
ASSUME = ["TLC exact rationals are the oracle (reference interpreter on the spec's trees for elementary functions)",
          "Eigen stand-in (/verif/cxx/eigen_standin), g++ 12 -std=c++20; real cpp/include headers",
          "row/column <-> name maps are probed from the generated code at run time; inputs set through Options structs and checked through accessors"]


def run(ctx):
    quick = ctx.quick
    n = 24 if quick else 600
    scns, stats = scen.generate(ctx, None, ("MC_EKF", "MC_C02_sim.cfg"), sim_num=n, sim_depth=90)
    if scns is not None:
        # the everyday family: models linear in state/control with dt factors (x + v dt), several dt values per process
        lin, st2 = scen.generate(ctx, None, ("MC_EKF", "MC_C02lin_sim.cfg"), sim_num=(16 if quick else 300), sim_depth=90)
        if lin is None:
            scns, stats = None, st2
        else:
            scns = scns + lin
            stats["states"] += st2["states"]
            stats["transitions"] += st2["transitions"]
            stats["tlc_runs"] += st2["tlc_runs"]
    if scns is not None:
        # mixed-symbol family: chained binary growth over states, controls AND calibrations (random growth rarely mixes them)
        mix, st3 = scen.generate(ctx, None, ("MC_EKF", "MC_C02mix_sim.cfg"), sim_num=(8 if quick else 200), sim_depth=90)
        if mix is None:
            scns, stats = None, st3
        else:
            scns = scns + mix
            stats["states"] += st3["states"]
            stats["transitions"] += st3["transitions"]
            stats["tlc_runs"] += st3["tlc_runs"]
    if scns is None:
        ctx.violation("spec-invariant", stats["tlc_violation"][:800], stats)
        return finish(ctx, LEVEL, {"states": 1, "transitions": 1, "traces_validated_against_impl": 0, "samples": [stats]}, ASSUME)
    # cpp.ExtendedKalmanFilter for everything; cpp.Model for the scenarios' ModelEval steps
    res_ekf = cppcheck.replay_cpp(ctx, scns, cse_settings=(False, True), kind="ekf")
    c1 = cppcheck.record(ctx, res_ekf, key_prefix="cpp-ekf:")
    model_scns = []
    for s in scns:
        steps = [st for st in s["steps"] if st["act"] == "ModelEval"]
        if steps:
            m = dict(s)
            m["steps"] = steps
            model_scns.append(m)
    if quick:
        model_scns = model_scns[:8]
    res_model = cppcheck.replay_cpp(ctx, model_scns, cse_settings=(False, True), kind="model")
    c2 = cppcheck.record(ctx, res_model, key_prefix="cpp-model:")
    combos = {}
    defs = {}
    for s in scns:
        d = Definition(s["def"])
        combos[(bool(d.control), bool(d.calib), len(d.sensors))] = combos.get((bool(d.control), bool(d.calib), len(d.sensors)), 0) + 1
        defs[d.canonical()] = d.nontrivial()
    cov = {"states": stats["states"], "transitions": stats["transitions"],
           "traces_validated_against_impl": len(scns) + len(model_scns),
           "samples": [scen.summarise(s) for s in scns[:2]],
           "programs": len(defs), "distinct_nontrivial": sum(1 for v in defs.values() if v),
           "evaluations": c1["cpp_values_compared"] + c2["cpp_values_compared"],
           "cpp_builds": len(res_ekf) + len(res_model),
           "control_calibration_sensors_combinations": {str(k): v for k, v in sorted(combos.items())},
           "rule": "program = definition (symbols, updates, sensors); each is rendered by FormaK with CSE off and on, compiled with g++ and "
                   "model / process_jacobian / control_jacobian / covariance / <Sensor>SensorModel::{model,jacobian,covariance} compared entry "
                   "by entry (by name) with the spec; non-trivial = shared sub-term or >= 2 symbols",
           "tlc_runs": stats["tlc_runs"], "ekf": c1, "model": c2}
    return finish(ctx, LEVEL, cov, ASSUME)


def replay(ctx, path):
    body = json.load(open(path))
    s = body["payload"]["scenario"]
    res = cppcheck.replay_cpp(ctx, [s], cse_settings=(body["payload"].get("cse", True),), kind="ekf")
    cppcheck.record(ctx, res)
    for v in ctx.violations:
        print("VIOLATION property=%s replay=%s" % (ctx.prop, path))
        print("  " + v["detail"])
        return 1
    print("replay: no violation")
    return 0
