--------------------------- MODULE Estimator_Trace ---------------------------
(***************************************************************************)
(* Trace validation for C17: each trace is the sequence of commands        *)
(* executed on a REAL SklearnEKFAdapter with, after each command, the      *)
(* abstract parameter state projected from the real object.  The first     *)
(* event is "create" (universe + initial parameters).  TLC decides whether *)
(* the observed sequence is a behaviour of Estimator.tla; for `fit` the    *)
(* specification is nondeterministic (FitOk / FitFail) and TLC infers      *)
(* which one happened.                                                     *)
(***************************************************************************)
EXTENDS MC_Estimator, IOUtils, TLCExt

Traces == JsonDeserialize(IOEnv.TRACE_FILE)

VARIABLES tid, l
tvars == <<vars, tid, l>>

ASSUME \A t \in 1..Len(Traces) : TLCSet(t, 0)

ToSet(s) == {s[i] : i \in DOMAIN s}
\* projected (JSON) parameters -> abstract parameters
Abs(p) == [symbolic_model |-> p.symbolic_model, sensor_models |-> p.sensor_models, calibration_map |-> p.calibration_map,
           process_noise |-> [id |-> p.process_noise.id, keys |-> ToSet(p.process_noise.keys),
                              finite |-> p.process_noise.finite, positive |-> p.process_noise.positive],
           sensor_noises |-> [id |-> p.sensor_noises.id,
                              keys |-> [k \in DOMAIN p.sensor_noises.keys |-> ToSet(p.sensor_noises.keys[k])],
                              finite |-> p.sensor_noises.finite],
           config |-> p.config]

Ev == Traces[tid][l]

TInit ==
  /\ tid \in 1..Len(Traces) /\ l = 2
  /\ LET e == Traces[tid][1] IN
     /\ e.cmd = "create" /\ uni = e.universe /\ params = Abs(e.post)
  /\ orig = params /\ log = <<>> /\ fits = 0 /\ done = FALSE

\* every spec action extended with "the observed post-state is the one the action yields"
Obs == l <= Len(Traces[tid]) /\ l' = l + 1 /\ UNCHANGED tid /\ params' = Abs(Ev.post)

TGetSet == Ev.cmd = "get_then_set" /\ Ev.outcome = "ok" /\ GetSetRoundTrip /\ Obs
TSetTok == /\ Ev.cmd = "set_params" /\ Ev.outcome = "ok" /\ Len(Ev.args) = 2 /\ Ev.args[1] \in {"symbolic_model", "sensor_models", "calibration_map"}
           /\ SetTok(Ev.args[1], Ev.args[2]) /\ Obs
TSetPN == Ev.cmd = "set_params" /\ Ev.outcome = "ok" /\ Len(Ev.args) = 2 /\ Ev.args[1] = "process_noise" /\ SetPNoise(Ev.args[2]) /\ Obs
TSetSN == Ev.cmd = "set_params" /\ Ev.outcome = "ok" /\ Ev.args[1] = "sensor_noises" /\ SetSNoise(Ev.args[2]) /\ Obs
TSetModelNoise == /\ Ev.cmd = "set_params" /\ Ev.outcome = "ok" /\ Len(Ev.args) = 4 /\ Ev.args[1] = "symbolic_model"
                  /\ SetModelAndNoise(Ev.args[2], Ev.args[4]) /\ Obs
TSetField == /\ Ev.cmd = "set_params" /\ Ev.outcome = "ok" /\ Len(Ev.args) = 2 /\ Ev.args[1] \in ConfigFields
             /\ SetConfigField(Ev.args[1], Ev.args[2]) /\ Obs
TSetTwo == /\ Ev.cmd = "set_params" /\ Ev.outcome = "ok" /\ Len(Ev.args) = 4 /\ Ev.args[1] \in ConfigFields
           /\ SetTwoFields(Ev.args[1], Ev.args[2], Ev.args[3], Ev.args[4]) /\ Obs
TSetCfgField == /\ Ev.cmd = "set_params" /\ Ev.outcome = "ok" /\ Len(Ev.args) = 4 /\ Ev.args[1] = "config"
                /\ SetConfigAndField(Ev.args[2], Ev.args[3], Ev.args[4]) /\ Obs
TSetNoiseField == /\ Ev.cmd = "set_params" /\ Ev.outcome = "ok" /\ Len(Ev.args) = 4 /\ Ev.args[1] = "process_noise"
                  /\ SetNoiseAndField(Ev.args[2], Ev.args[3], Ev.args[4]) /\ Obs
TSetConfig == /\ Ev.cmd = "set_params" /\ Ev.outcome = "ok" /\ Ev.args[1] = "config"
              /\ SetConfig(Ev.args[2]) /\ Obs
TSetBogus == /\ Ev.cmd = "set_params" /\ Ev.outcome = "refused" /\ Ev.args[1] \notin AllowedKeys \cup ConfigFields
             /\ SetBogus(Ev.args[1]) /\ Obs
TClone == Ev.cmd = "clone" /\ Ev.outcome = "ok" /\ Clone /\ Obs /\ Abs(Ev.clone) = params /\ Ev.distinct_object
TQuery == Ev.cmd \in {"transform", "mahalanobis", "score"} /\ Ev.outcome = "ok" /\ Query(Ev.cmd) /\ Obs
\* the exported filter carries exactly the estimator's configuration and noises (by name) and the model's layouts
TExport == /\ Ev.cmd = "export_python" /\ Ev.outcome = "ok" /\ Query("export_python") /\ Obs
           /\ Ev.exported.config = params.config /\ Ev.exported.noises_match /\ Ev.exported.layout_ok
\* (a fitted noise map is "some map": its identity token is not constrained, everything else is)
NoIds(p) == [p EXCEPT !.process_noise.id = "-", !.sensor_noises.id = "-"]
TFitOk == /\ Ev.cmd \in FitCmds /\ Ev.outcome = "ok" /\ Can /\ fits < MaxFits
          /\ NoIds(Abs(Ev.post)) = NoIds(FitPost(params))
          \* fit_transform returns what transform returns on the fitted estimator
          /\ (Ev.cmd = "fit_transform" => Ev.equals_transform_after_fit)
          /\ params' = Abs(Ev.post) /\ fits' = fits + 1
          /\ log' = Append(log, [cmd |-> Ev.cmd, args |-> <<>>, outcome |-> "ok", post |-> params'])
          /\ l <= Len(Traces[tid]) /\ l' = l + 1
          /\ UNCHANGED <<tid, uni, orig, done>>
\* after a failed fit nothing is claimed about the parameters: the observed state is taken as is
TFitFail == /\ Ev.cmd \in FitCmds /\ Ev.outcome = "MinimizationFailure" /\ l <= Len(Traces[tid]) /\ fits < MaxFits
            /\ l' = l + 1 /\ params' = Abs(Ev.post) /\ fits' = fits + 1
            /\ UNCHANGED <<tid, uni, orig, log, done>>

TNext == l <= Len(Traces[tid]) /\
         (TGetSet \/ TSetTok \/ TSetModelNoise \/ TSetPN \/ TSetSN \/ TSetField \/ TSetTwo \/ TSetNoiseField \/ TSetCfgField \/ TSetConfig \/ TSetBogus \/ TClone \/ TQuery \/ TExport \/ TFitOk \/ TFitFail)

Reach == TLCSet(tid, IF TLCGet(tid) < l THEN l ELSE TLCGet(tid))
Post == \A t \in 1..Len(Traces) :
          IF TLCGet(t) = Len(Traces[t]) + 1 THEN PrintT(<<"ACCEPT", t>>)
          ELSE PrintT(<<"REJECT", t, TLCGet(t)>>)
=============================================================================
