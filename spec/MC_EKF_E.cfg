INIT Init
NEXT Next
CONSTANTS
  Shapes <- cShapesE
  SymNames <- cSymsE
  NameSeq <- cSeqE
  SensorNames <- cSensE
  ReadingNames <- cReadE
  Ops <- cOpsE
  Consts <- cConstsE
  MinGrow = 1
  MaxGrow = 1
  NPoints = 1
  Vals <- cValsE
  Dts <- cDtsE
  CalVals <- cCalE
  PNoiseVals <- cNoiseE
  SNoiseVals <- cNoiseE
  Ks <- cKsE
  PDiag <- cPDiagE
  PVec <- cPVecE
  ZDeltas <- cZE
  Acts <- cActsFilter
  MinSteps = 0
  MaxSteps = 3
  RationalOnly = TRUE
  Twins = FALSE
  Chain = FALSE
  NeedDt = FALSE
  BindLeaves = TRUE
  EmitOn = FALSE
INVARIANT InvCovValid
INVARIANT InvUpdate
INVARIANT InvReject
INVARIANT InvNisNonNeg
INVARIANT InvSPD
CHECK_DEADLOCK FALSE
