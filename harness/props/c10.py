"""C10 -- the managed filter moves through time in bounded, correctly directed steps."""
import json

import mfcheck
from common import finish

LEVEL = "model_checking"
ASSUME = ["dyadic time grid (1 unit = 2^-10 s) makes every float operation of the runtimes exact, so the real step "
          "sequence must equal the specification's plan exactly",
          "C++: recording Impl with exactly the process_model signatures FormaK generates, real ManagedFilter.h, g++ 12 -std=c++20",
          "Python: duck-typed recording filter, real formak.runtime.ManagedFilter"]


def run(ctx):
    scns, stats = mfcheck.generate(ctx, ctx.quick)
    if scns is None:
        ctx.violation("spec-invariant", stats["tlc_violation"][:500], stats)
        return finish(ctx, LEVEL, {"states": 1, "transitions": 1, "traces_validated_against_impl": 0, "samples": [stats]}, ASSUME)
    steps_checked = 0
    # ---- Python ----
    pres = mfcheck.replay_python(ctx, scns)
    for s, o in zip(scns, pres):
        mm = o["mismatch"]
        if not mm:
            steps_checked += o["calls"]
            continue
        if mm["what"] in ("returned-call-sequence", "held-estimate"):
            exp = mm["expected"] if mm["what"] == "returned-call-sequence" else mm["expected"][1]
            obs = mm["observed"] if mm["what"] == "returned-call-sequence" else mm["observed"][1]
            if mfcheck.pproj(exp) != mfcheck.pproj(obs):
                back = any(d < 0 for d in mfcheck.pproj(exp))
                ctx.violation("py:steps:%s" % ("backward" if back else "forward"),
                              "tick %d: expected steps %s, runtime.py issued %s" % (mm["tick"], mfcheck.pproj(exp)[:8], mfcheck.pproj(obs)[:8]),
                              {"scenario": s, "mismatch": mm, "unit_s": mfcheck.UNIT})
        elif mm["what"] == "exception":
            ctx.violation("py:exception", mm["observed"], {"scenario": s, "mismatch": mm})
    # ---- C++ ----
    cres = mfcheck.replay_cpp(ctx, scns)
    for (hc, hk), r in sorted(cres.items()):
        if r["build"] is not None:
            ctx.violation("cpp:build:control=%d,calibration=%d" % (hc, hk),
                          "ManagedFilter<Impl> does not compile for this combination: " + r["build"][-600:],
                          {"combo": [hc, hk], "stderr": r["build"]})
            continue
        for si, s in enumerate(r["scns"], start=1):
            for ti, tk in enumerate(s["ticks"], start=1):
                if tk["refused"] or (hc and not tk["ctl"]):
                    continue
                obs = r["rets"].get((si, ti))
                if obs is None:
                    ctx.violation("cpp:no-output", "no result for tick", {"scenario": s, "tick": ti, "combo": [hc, hk]})
                    break
                exp = mfcheck.expected_ops(tk, r["keyidx"], has_control=bool(hc))
                steps_checked += len(obs)
                if mfcheck.pproj(exp) != mfcheck.pproj(obs):
                    back = any(d < 0 for d in mfcheck.pproj(exp))
                    ctx.violation("cpp:steps:%s" % ("backward" if back else "forward"),
                                  "control=%d calibration=%d tick %d: expected steps %s, ManagedFilter.h issued %s" %
                                  (hc, hk, ti, mfcheck.pproj(exp)[:8], mfcheck.pproj(obs)[:8]),
                                  {"scenario": s, "tick": ti, "combo": [hc, hk], "expected": exp, "observed": obs, "unit_s": mfcheck.UNIT})
                    break
    # unbounded: the arithmetic core of Plan for ALL integers from, to and every positive max step (Apalache / SMT, about 5 s)
    import apalache
    apa = apalache.check_inv("PlanProof", "PlanArithmetic")
    if apa["outcome"] == "Error":
        ctx.violation("spec-theorem:PlanArithmetic", "Apalache found a counterexample to the plan arithmetic", apa)
    elif not apa["ok"]:
        ctx.notes.append("Apalache run inconclusive: %s" % apa["tail"][-200:])
    dec = decimal_part(ctx)
    if not ctx.quick:
        dec["repository_tests"] = repo_tests_part(ctx)      # about a minute: thorough tier only
    nontriv = sum(1 for s in scns if any(len(mfcheck.pproj(mfcheck.expected_ops(tk))) >= 2 for tk in s["ticks"]))
    cov = {"states": stats["states"], "transitions": stats["transitions"],
           "traces_validated_against_impl": len(scns) * 3,
           "samples": scns[:1] + scns[-1:],
           "evaluations": steps_checked, "distinct_nontrivial": nontriv,
           "rule": "behaviour = (max_dt, start time, sequence of ticks with readings); non-trivial = some travel needs >= 2 steps; "
                   "each behaviour is replayed into runtime.py and into ManagedFilter.h for both calibration settings",
           "exhaustive": bool(stats.get("exhaustive_replayed_all")),
           "exhaustive_scope": "MC_MF_E1: every single tick from 7 start times x 7 output times x <=2 readings x max_dt in {1,2,3} units; "
                               "PlanTheorem (direction, bound, sum, emptiness) checked by TLC for all from,to in -40..40 and 8 max_dt values",
           "tlc_runs": stats["tlc_runs"], "decimal_grid": dec,
           "apalache_plan_arithmetic_all_integers": {k: apa[k] for k in ("ok", "outcome", "wall_s")}}
    return finish(ctx, LEVEL, cov, ASSUME)


def decimal_part(ctx):
    import os
    """(b) decimal, non-representable times: unit 0.01 s, max_dt in {0.01, 0.05, 0.1, 0.3}; travels recorded from both runtimes are
    validated by TLC against PlanOK (MF_Trace.tla), the property's own statement with its own 1e-9 s slack."""
    import tlc
    import trace
    import workers
    import mfcpp
    unit = 0.01
    r = tlc.run("MC_MF_dec", mode="sim", workers=8, num=(24 if ctx.quick else 1500), depth=40, seed=ctx.seed + 5, timeout=900)
    if r.violation:
        ctx.violation("spec-invariant", r.violation[:500], {})
    scns = r.printed
    chunks = [scns[i::ctx.cores] for i in range(ctx.cores)]
    chunks = [c for c in chunks if c]
    res = workers.run_tasks([("tasks", "mf_decimal_batch", (c, unit), 900) for c in chunks], procs=ctx.cores)
    traces, meta = [], []
    for c, (status, outs) in zip(chunks, res):
        if status != "ok":
            raise RuntimeError(outs)
        for s, evs in zip(c, outs):
            traces.append(evs)
            meta.append(("py", s))
    # C++: same histories, driver built for the decimal unit
    builds = mfcpp.build_all(ctx.work + "/", unit_expr="0.01", extra_defines=["MAXN_LIST(X)=X(1) X(5) X(10) X(30)"])
    keys = sorted({rd["key"] for s in scns for tk in s["ticks"] for rd in tk["rs"]})
    keyidx = {k: i for i, k in enumerate(keys)}
    for (hc, hk), (exe, err) in sorted(builds.items()):
        if exe is None:
            ctx.violation("cpp:build:control=%d,calibration=%d" % (hc, hk), err[-400:], {})
            continue
        sel = [s for s in scns if bool(s["hasControl"]) == bool(hc)]
        rets = mfcpp.run_combo(exe, sel, keyidx)
        for si, s in enumerate(sel, start=1):
            times, evs = [], []
            for ti, tk in enumerate(s["ticks"], start=1):
                if tk["refused"] or (hc and not tk["ctl"]):
                    continue
                n_prev = len(times)
                times += [rd["t"] * unit for rd in tk["rs"]]
                ops = rets.get((si, ti))
                te = mfcheck.travel_events(ops or [], s["t0"] * unit, times, n_prev, tk["out"] * unit, s["max"] * unit) if ops is not None else None
                if te is None:
                    evs.append({"exception": "no / malformed result"})
                    break
                evs += te
            traces.append(evs)
            meta.append(("cpp[%d%d]" % (hc, hk), s))
    # long single moves (tens of thousands of sub-steps: rounding must not accumulate), both runtimes; times in seconds
    def family(unit_, spec_):
        return [(n_, a_ * 1.0, b_ * 1.0, c_) for (n_, a_, b_, c_) in spec_], unit_
    long_moves = [(10, 0.0, 3600.0, False), (5, 0.0, -7200.0 / (2 if ctx.quick else 1), True), (10, 1.23, 2500.07, True)]
    if not ctx.quick:
        long_moves += [(1, 0.0, 1000.0, False), (30, -1000.0, 2600.11, True), (5, 7.77, -3000.0, False)]
    # moves that fall short of / exceed a whole number of LARGE steps (max_dt_sec 0.5 .. 5 s) by less than, about, and more than the
    # 1e-9 s slack: the quotient (target - start)/max_dt sits within rounding distance of an integer
    near = []
    rnd_ = __import__("random").Random(ctx.seed + 77)
    for maxn in (1, 3, 4, 10):                       # x 0.5 s
        mx = maxn * 0.5
        for start in (0.0, 10.0, -3.25):
            for kmul in (1, 2, 7):
                for delta in (0.0, 1e-10, 5e-10, 9e-10, 2e-9, 1e-8, 1e-10 * mx, 9e-10 * mx):
                    for sgn in (1.0, -1.0):
                        for dirn in (1.0, -1.0):
                            near.append((maxn, start, start + dirn * (kmul * mx + sgn * delta), bool(kmul % 2)))
    if ctx.quick:
        near = rnd_.sample(near, 96)
    # moves of (much) less than the 1e-9 s slack, in both directions: nothing, or one tiny step in the right direction -- never a
    # full step and back
    for maxn in (1, 4):
        for start in (0.0, 0.1 * 3, -3.25):
            for delta in (1e-10, 5e-10, 9e-10, 2e-9, 2.0 ** -33):
                for dirn in (1.0, -1.0):
                    near.append((maxn, start, start + dirn * delta, dirn > 0))
    fams = [(long_moves, 0.01, "long"), (near, 0.5, "near-multiple")]
    import cppbuild
    for moves, unit_, tag in fams:
        chunks_ = [moves[i::ctx.cores] for i in range(ctx.cores)]
        chunks_ = [c for c in chunks_ if c]
        res = workers.run_tasks([("tasks", "mf_long_batch", (c, unit_), 1200) for c in chunks_], procs=ctx.cores)
        for c, (status, outs) in zip(chunks_, res):
            if status != "ok":
                raise RuntimeError(outs)
            for m, ev in zip(c, outs):
                traces.append(ev)
                meta.append(("py-" + tag, {"max": m[0], "t0": m[1] / unit_, "out": m[2] / unit_, "hasControl": m[3], "unit": unit_}))
        long_jobs = [{"sources": ["/verif/cxx/mf_long.cpp"], "out": os.path.join(ctx.work, "mf_%s_%d%d" % (tag, hc, hk)),
                      "defines": ["HAS_CONTROL=%d" % hc, "HAS_CALIBRATION=%d" % hk, "UNIT_SCALE=%r" % unit_], "_c": (hc, hk)} for hc, hk in ((0, 0), (1, 1), (0, 1), (1, 0))]
        for job, (okb, errb) in zip(long_jobs, cppbuild.compile_many(long_jobs)):
            hc, hk = job["_c"]
            if not okb:
                ctx.violation("cpp:build:control=%d,calibration=%d" % (hc, hk), errb[-400:], {})
                continue
            sel = [m for m in moves if bool(m[3]) == bool(hc)]
            rc, so, se = cppbuild.run_exe(job["out"], "".join("%d %s %s\n" % (m[0], float(m[1]).hex(), float(m[2]).hex()) for m in sel), timeout=600)
            blocks = so.split("MOVE\n")[1:]
            for m, blk in zip(sel, blocks):
                dts = [float.fromhex(x) for x in blk.split("END")[0].split()]
                ev = mfcheck.travel_events([("P", d, 0) for d in dts], m[1], [], 0, m[2], m[0] * unit_)
                for e in ev:
                    e["dts"] = e["dts"][:5] + ["..."] + e["dts"][-3:] if len(e["dts"]) > 10 else e["dts"]
                traces.append(ev)
                meta.append(("cpp-%s[%d%d]" % (tag, hc, hk), {"max": m[0], "t0": m[1] / unit_, "out": m[2] / unit_, "hasControl": m[3], "unit": unit_}))
    clean = [[{k: e[k] for k in mfcheck.TRACE_KEYS} if "exception" not in e else dict(mfcheck.BAD_EVENT) for e in t] for t in traces]
    verdicts, tres = trace.validate("MF_Trace", clean)
    ntrav = 0
    for (side, s), t, v in zip(meta, traces, verdicts):
        ntrav += len(t)
        if v is not None:
            e = t[v]
            back = e.get("dir") == -1
            ctx.violation("%s:decimal-steps:%s" % (side.split("[")[0], "backward" if back else "forward"),
                          "%s max_dt=%s: travel %s -> %s issued steps %s (PlanOK rejects: direction / bound / sum within 1e-9 s)" %
                          (side, s["max"] * s.get("unit", unit), e.get("start"), e.get("target"), e.get("dts", e.get("exception"))), {"scenario": s, "travel": e, "unit": s.get("unit", unit)})
    return {"histories": len(scns), "traces": len(traces), "travels_validated": ntrav, "unit_s": unit, "max_dt_s": [0.01, 0.05, 0.1, 0.3]}


def replay(ctx, path):
    body = json.load(open(path))
    s = body["payload"].get("scenario")
    if s is None:
        print("replay: build failure recorded; re-run the check")
        return 2
    pres = mfcheck.replay_python(ctx, [s])
    print(json.dumps(pres[0], default=str)[:1000])
    return 1 if pres[0]["mismatch"] else 0



def repo_tests_part(ctx):
    """(c) the repository's own runtime tests (hypothesis-driven, real compiled filters) run under a recording plugin; every tick they
    execute is turned into travel events and validated by TLC against PlanOK (MF_Trace.tla); the held time must be the last reading's."""
    import os
    import subprocess
    import trace
    rec = os.path.join(ctx.work, "repo_ticks.jsonl")
    env = dict(os.environ)
    env["VERIF_RECORD_FILE"] = rec
    env["PYTHONPATH"] = "/verif/harness"
    env.pop("FORMAK_VERIF", None)
    repo = os.environ.get("VERIF_REPO", "/repo")
    tests = ["py/test/unit/runtime", "featuretests/managed_filter/tick_interface_test.py"] if not ctx.quick else ["py/test/unit/runtime/ManagedFilter_test.py"]
    p = subprocess.run(["/venv/bin/python", "-m", "pytest", "-q", "-p", "no:cacheprovider", "-p", "repo_recorder", "--timeout=900"] + tests,
                       cwd=repo, env=env, capture_output=True, text=True, timeout=1800)
    ticks = []
    if os.path.exists(rec):
        for line in open(rec):
            ticks.append(json.loads(line))
    traces, keep = [], []
    for t in ticks:
        if t["error"]:
            continue
        ev = mfcheck.travel_events([tuple(o) for o in t["ops"]], t["t0"], t["readings"], 0, t["out"], t["max_dt"])
        if ev is None:
            ev = [dict(mfcheck.BAD_EVENT, start=t["t0"], target=t["out"], dts="one sensor update per reading expected")]
        # hold at the last reading
        exp_held = t["readings"][-1] if t["readings"] else t["t0"]
        if t["held_after"] != exp_held:
            ev.append(dict(mfcheck.BAD_EVENT, start=t["t0"], target=exp_held, dts="held time %r" % t["held_after"]))
        traces.append([{k: e.get(k, mfcheck.BAD_EVENT[k]) for k in mfcheck.TRACE_KEYS} for e in ev])
        keep.append((t, ev))
    # de-duplicate identical traces (hypothesis repeats examples), keep TLC input small
    seen, utr, ukeep = set(), [], []
    for tr, k in zip(traces, keep):
        h = json.dumps(tr, sort_keys=True)
        if h not in seen:
            seen.add(h)
            utr.append(tr)
            ukeep.append(k)
    verdicts, tres = trace.validate("MF_Trace", utr)
    for (t, ev), v in zip(ukeep, verdicts):
        if v is not None:
            e = ev[v]
            ctx.violation("repo-tests:steps", "%s: travel %s -> %s with max_dt %s issued %s" % (t["test"][:80], e.get("start"), e.get("target"), t["max_dt"], e.get("dts")),
                          {"tick": t, "travel": e})
    return {"pytest_exit": p.returncode, "pytest_tail": p.stdout.strip().splitlines()[-1:] if p.stdout.strip() else [], "ticks_recorded": len(ticks),
            "distinct_travel_traces_validated": len(utr)}
