INIT TInit
NEXT TNext
CONSTANTS
  Ids = {1, 2, 3}
  Start = 1
  RealOnly = TRUE
  RealEdges <- cRealEdges
  MaxMoves = 100
  EmitOn = FALSE
CONSTRAINT Reach
POSTCONDITION Post
CHECK_DEADLOCK FALSE
