---------------------------- MODULE ManagedFilter ----------------------------
(***************************************************************************)
(* The managed-filter runtime (py/formak/runtime.py, ManagedFilter.h).     *)
(*                                                                         *)
(* The wrapped filter is abstracted as the FREE MONOID OF CALLS: an        *)
(* estimate *is* the sequence of operations applied to the initial         *)
(* estimate,  <<"P", dt>>  (prediction step of signed length dt) and       *)
(* <<"S", key, id>>  (sensor update with reading `id` of sensor `key`).    *)
(* Any concrete filter is a homomorphic image of this, so "same call       *)
(* sequence" implies "same result for every filter", and the order, count, *)
(* size and sign of every step is visible.                                 *)
(*                                                                         *)
(* Time is an integer grid (the replay harness maps one unit to 2^-10 s,   *)
(* so all floating-point time arithmetic of the implementations is exact). *)
(***************************************************************************)
EXTENDS Integers, Sequences, FiniteSets, TLC, Json

CONSTANTS
  Times,       \* set of integer time points
  MaxDts,      \* set of configured maximum steps (positive integers)
  Keys,        \* sensor keys
  MaxTicks, MaxReadings,
  MinTicks,    \* Emit is enabled once this many ticks happened
  EmitOn       \* BOOLEAN: print behaviours for the replay harness

VARIABLES
  max,         \* configured maximum step of this filter
  hasControl,  \* does the wrapped filter declare control inputs
  held,        \* [t |-> held time, hist |-> held estimate (call sequence)]
  ghost,       \* the same run with every reading-less tick dropped (theorem C11b)
  nr,          \* readings consumed so far (gives every reading a unique id)
  log,         \* history of ticks: args + returned estimate + held state (observation only)
  last,        \* arguments/result of the last call (observation only)
  done

vars == <<max, hasControl, held, ghost, nr, log, last, done>>

AbsI(x) == IF x < 0 THEN -x ELSE x
Sgn(x)  == IF x < 0 THEN -1 ELSE IF x > 0 THEN 1 ELSE 0

(***************************************************************************)
(* The exact plan for moving from `from` to `to` with maximum step m:      *)
(* floor(|d|/m) full steps of sign(d)*m, then the remainder if non-zero.   *)
(***************************************************************************)
Plan(from, to, m) ==
  LET d == to - from
      n == AbsI(d) \div m
      r == d - Sgn(d) * n * m
  IN [i \in 1..n |-> <<"P", Sgn(d) * m>>] \o (IF r # 0 THEN << <<"P", r>> >> ELSE <<>>)

RECURSIVE SumSteps(_)
SumSteps(s) == IF s = <<>> THEN 0 ELSE Head(s)[2] + SumSteps(Tail(s))

\* C10 for the plan: direction, bound, sum, emptiness -- checked at start-up over the whole grid
PlanOKExact(from, to, m) ==
  LET p == Plan(from, to, m) IN
  /\ \A i \in DOMAIN p : Sgn(p[i][2]) = Sgn(to - from) /\ AbsI(p[i][2]) <= m /\ p[i][2] # 0
  /\ SumSteps(p) = to - from
  /\ (p = <<>>) <=> (from = to)
  \* no more steps than necessary: all but the last are full steps
  /\ \A i \in DOMAIN p : i < Len(p) => AbsI(p[i][2]) = m

ASSUME PlanTheorem == \A f \in Times : \A t \in Times : \A m \in MaxDts : PlanOKExact(f, t, m)

(***************************************************************************)
(* Readings are folded IN THE ORDER GIVEN: propagate the held estimate to  *)
(* the reading's timestamp, apply the update, hold the result there.       *)
(***************************************************************************)
RECURSIVE Fold(_, _, _)
Fold(h, rs, m) ==
  IF rs = <<>> THEN h
  ELSE LET r == Head(rs) IN
       Fold([t |-> r.t, hist |-> h.hist \o Plan(h.t, r.t, m) \o << <<"S", r.key, r.id>> >>],
            Tail(rs), m)

Report(h, out, m) == h.hist \o Plan(h.t, out, m)

Init ==
  /\ max \in MaxDts /\ hasControl \in BOOLEAN
  /\ \E t0 \in Times : held = [t |-> t0, hist |-> <<>>] /\ ghost = held
  /\ nr = 0 /\ log = <<>> /\ last = <<>> /\ done = FALSE

ReadingSeqs(n) == UNION {[1..k -> Times \X Keys] : k \in 0..n}

\* attach unique ids to the readings of this tick
WithIds(raw) == [i \in DOMAIN raw |-> [t |-> raw[i][1], key |-> raw[i][2], id |-> nr + i]]

\* a model with control inputs cannot be ticked without them
TickRefused(out, raw) ==
  /\ ~done /\ Len(log) < MaxTicks /\ hasControl
  /\ log' = Append(log, [out |-> out, ctl |-> FALSE, rs |-> WithIds(raw), refused |-> TRUE,
                         ret |-> <<>>, held_t |-> held.t, held_hist |-> held.hist])
  /\ last' = [kind |-> "refused", nrs |-> Len(raw)]
  /\ UNCHANGED <<max, hasControl, held, ghost, nr, done>>

Tick(out, ctl, raw) ==
  /\ ~done /\ Len(log) < MaxTicks
  /\ (hasControl => ctl)
  /\ LET rs == WithIds(raw)
         h2 == Fold(held, rs, max) IN
     /\ held' = h2
     /\ ghost' = IF raw = <<>> THEN ghost ELSE Fold(ghost, rs, max)
     /\ nr' = nr + Len(raw)
     /\ log' = Append(log, [out |-> out, ctl |-> ctl, rs |-> rs, refused |-> FALSE,
                            ret |-> Report(h2, out, max), held_t |-> h2.t, held_hist |-> h2.hist])
     /\ last' = [kind |-> "tick", nrs |-> Len(raw), out |-> out, ret |-> Report(h2, out, max), before |-> held]
  /\ UNCHANGED <<max, hasControl, done>>

Emit ==
  /\ ~done /\ Len(log) >= MinTicks /\ EmitOn
  /\ PrintT(ToJson([max |-> max, hasControl |-> hasControl, ticks |-> log]))
  /\ done' = TRUE
  /\ UNCHANGED <<max, hasControl, held, ghost, nr, log, last>>

Next ==
  \/ \E out \in Times : \E ctl \in BOOLEAN : \E raw \in ReadingSeqs(MaxReadings) : Tick(out, ctl, raw)
  \/ \E out \in Times : \E raw \in ReadingSeqs(MaxReadings) : TickRefused(out, raw)
  \/ Emit

Spec == Init /\ [][Next]_vars

\* fingerprint without the observation variables (exhaustive configs)
View == <<max, hasControl, held, ghost, nr, Len(log), done>>

(***************************************************************************)
(* Theorems (C10 / C11)                                                    *)
(***************************************************************************)
\* the held estimate is always "initial estimate advanced through its history":
\* every P step in it obeys the bound
RECURSIVE AllBounded(_, _)
AllBounded(h, m) == h = <<>> \/ ((Head(h)[1] = "P" => AbsI(Head(h)[2]) <= m /\ Head(h)[2] # 0) /\ AllBounded(Tail(h), m))
InvBounded == AllBounded(held.hist, max)

\* C11b: a tick without readings never changes what later ticks return
\* (the run with all such ticks removed holds the same estimate at the same time)
InvGhost == held = ghost

\* the report is the held estimate propagated to the output time and is NOT held
InvReport == (last # <<>> /\ last.kind = "tick") =>
                /\ last.ret = Report(held, last.out, max)
                /\ (last.nrs = 0 => held = last.before)

\* a refused tick changes nothing
ActRefused == [][(last' # last /\ last'.kind = "refused") => held' = held /\ ghost' = ghost]_vars
\* the held time only moves to reading timestamps
ActHeldTime == [][held'.t # held.t => (log' # log /\ Len(log'[Len(log')].rs) > 0
                                        /\ held'.t = log'[Len(log')].rs[Len(log'[Len(log')].rs)].t)]_vars
=============================================================================
