-------------------------------- MODULE Names --------------------------------
(***************************************************************************)
(* The library's name order (fact F2 of DESIGN.md): every layout in FormaK *)
(* is `sorted(..., key=lambda s: s.name)` or `sorted()` of string keys,    *)
(* i.e. Python str order = lexicographic order on code points.             *)
(***************************************************************************)
EXTENDS Integers, Sequences, FiniteSets, SequencesExt, NamePool

RECURSIVE LexLess(_, _)
LexLess(s, t) == IF s = <<>> THEN t # <<>>
                 ELSE IF t = <<>> THEN FALSE
                 ELSE IF Head(s) # Head(t) THEN Head(s) < Head(t)
                 ELSE LexLess(Tail(s), Tail(t))

NameLess(a, b) == LexLess(Code[a], Code[b])

\* the sorted sequence of a finite set of names
SortNames(S) == SetToSortSeq(S, NameLess)

RangeOf(s) == {s[i] : i \in DOMAIN s}
IndexOf(n, s) == CHOOSE i \in DOMAIN s : s[i] = n

\* C++ identifier characters: [A-Za-z_][A-Za-z0-9_]*
IsAlpha(c) == (c >= 65 /\ c <= 90) \/ (c >= 97 /\ c <= 122) \/ c = 95
IsAlnum(c) == IsAlpha(c) \/ (c >= 48 /\ c <= 57)
IdentSafe(n) == LET cs == Code[n] IN
                /\ cs # <<>> /\ IsAlpha(cs[1]) /\ \A i \in DOMAIN cs : IsAlnum(cs[i])
                /\ n \notin {"data", "rows", "cols", "DataT", "state", "control", "calibration",
                             "dt", "reading", "jacobian", "covariance", "size", "model"}
=============================================================================
