#!/bin/sh
# Offline setup: nothing to build ahead of time -- every check regenerates and recompiles what it needs
# from /repo's working tree.  This only verifies the tools the checks rely on.
set -e
java -version >/dev/null 2>&1
test -f /opt/veriftools/tla/tla2tools.jar
/venv/bin/python -c "import sympy, numpy, scipy, sklearn, jinja2"
g++ --version >/dev/null
mkdir -p /verif/evidence/replays
echo setup ok
