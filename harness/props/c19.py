"""C19 -- the strapdown IMU reference model obeys rigid-body kinematics."""
import json
import random
from fractions import Fraction

import tlc
import workers
from common import finish

LEVEL = "model_checking"
ASSUME = ["Strapdown.tla is written from the physics (Hamilton product, q = ori (x) cal, roll/pitch/yaw rates = x/y/z components); TLC computes every "
          "expected output exactly and checks |pq|^2 = |p|^2|q|^2 and length preservation of the sandwich on every point",
          "symbolic model (sympy subs with Rationals; the model has a float 0.5 literal) and compiled model (CSE off/on): 1e-9 relative to TLC's exact value"]

NAMES = {
    "ori": ["oriw", "orix", "oriy", "oriz"], "cal": ["coriw", "corix", "coriy", "coriz"],
    "w": [r"\omega_{1}", r"\omega_{2}", r"\omega_{3}"], "f": ["f_{1}", "f_{2}", "f_{3}"],
    "b": ["f_bias_{1}", "f_bias_{2}", "f_bias_{3}"], "x": ["x_{A}_{1}", "x_{A}_{2}", "x_{A}_{3}"],
    "v": [r"\dot{x}_{A}_{1}", r"\dot{x}_{A}_{2}", r"\dot{x}_{A}_{3}"],
}
OUT = {
    "rates": [r"\dot{\phi}", r"\dot{\theta}", r"\dot{\psi}"],           # roll, pitch, yaw = x, y, z components
    "accel": [r"\ddot{x}_{A}_{1}", r"\ddot{x}_{A}_{2}", r"\ddot{x}_{A}_{3}"],
    "vel": NAMES["v"], "pos": NAMES["x"], "ori": NAMES["ori"],
}

_cache = {}


def _setup(mods):
    if "sm" in _cache:
        return _cache
    from formak.reference_models import strapdown_imu as sm
    python = mods["python"]
    model = sm.symbolic_model
    syms = {s.name: s for s in list(model.state) + list(model.control) + list(model.calibration)}
    syms["dt"] = model.dt
    _cache.update(sm=sm, syms=syms, model=model, python=python, compiled={})
    return _cache


def _compiled(c, cse, calvals):
    key = (cse, tuple(sorted(calvals.items())))
    if key not in c["compiled"]:
        if len(c["compiled"]) > 6:
            c["compiled"].clear()
        cm = {c["syms"][n]: v for n, v in calvals.items()}
        c["compiled"][key] = c["python"].compile(c["model"], calibration_map=cm, config={"common_subexpression_elimination": cse})
    return c["compiled"][key]


def eval_points(mods, pts, do_compiled=True, do_symbolic=True):
    import sympy
    c = _setup(mods)
    syms, model = c["syms"], c["model"]
    out = []
    for p in pts:
        inp = p["in"]
        env = {}
        for fld, names in NAMES.items():
            for n, q in zip(names, inp[fld]):
                env[n] = Fraction(q[0], q[1])
        env["g"] = Fraction(inp["g"][0], inp["g"][1])
        dt = Fraction(inp["dt"][0], inp["dt"][1])
        expected = {}
        for k, names in OUT.items():
            for n, q in zip(names, p["out"][k]):
                expected[n] = Fraction(q[0], q[1])
        mism = []
        n_cmp = 0
        if do_symbolic:
            subs = {syms[n]: sympy.Rational(v.numerator, v.denominator) for n, v in env.items()}
            subs[syms["dt"]] = sympy.Rational(dt.numerator, dt.denominator)
            for n, e in expected.items():
                # (the model contains the float literal 0.5, so the symbolic value is a Float, not a Rational)
                val = model.state_model[syms[n]].subs(subs)
                n_cmp += 1
                try:
                    fv = float(val)
                except Exception:
                    fv = float("nan")
                ef = float(e)
                if not (abs(fv - ef) <= 1e-9 * max(1.0, abs(ef))):
                    mism.append({"where": "symbolic", "name": n, "expected": str(e), "observed": str(val)})
        if do_compiled:
            calnames = [s.name for s in model.calibration]
            calvals = {n: float(env[n]) for n in calnames}
            for cse in (False, True):
                impl = _compiled(c, cse, calvals)
                st = impl.State(**{s.name: float(env.get(s.name, 0)) for s in model.state})
                ctl = impl.Control(**{s.name: float(env[s.name]) for s in model.control})
                res = impl.model(float(dt), st, ctl)
                got = {str(s): float(res.data[i, 0]) for i, s in enumerate(res._arglist)}
                for n, e in expected.items():
                    n_cmp += 1
                    ef = float(e)
                    if not (abs(got[n] - ef) <= 1e-9 * max(1.0, abs(ef))):
                        mism.append({"where": "compiled cse=%s" % cse, "name": n, "expected": ef, "observed": got[n]})
        out.append({"mismatches": mism[:6], "compared": n_cmp})
    return out


def run(ctx):
    quick = ctx.quick
    rnd = random.Random(ctx.seed)
    if quick:
        ra = tlc.run("MC_C19", cfg="MC_C19_axis.cfg", mode="sim", workers=8, num=250, depth=30, seed=ctx.seed + 3, timeout=900)
    else:
        ra = tlc.run("MC_C19", cfg="MC_C19_axis.cfg", workers=ctx.cores, timeout=900)
    if ra.violation:
        ctx.violation("spec-invariant", ra.violation[:600], {})
    axis = [p for b in ra.printed for p in b]
    all_axis = len(axis)
    rs = tlc.run("MC_C19", cfg="MC_C19_sim.cfg", mode="sim", workers=8, num=(1 if quick else 40), depth=120, seed=ctx.seed + 1, timeout=900)
    if rs.violation:
        ctx.violation("spec-invariant", rs.violation[:600], {})
    gen = [p for b in rs.printed for p in b]
    ctx.log("TLC: %d axis-aligned points, %d general points" % (all_axis, len(gen)))
    # group by calibration (it is compiled into the model): one task per group
    groups = {}
    for i, p in enumerate(axis + gen):
        groups.setdefault(json.dumps([p["in"]["cal"], p["in"]["b"], p["in"]["g"]]), []).append(p)
    keys = sorted(groups)
    rnd.shuffle(keys)
    if quick:
        keys = keys[:14]
    tasks = []
    chunks = []
    pts = []
    for k in keys:
        g = groups[k]
        if quick:
            g = g[:40]
        for j in range(0, len(g), 400):
            part = g[j:j + 400]
            nsym = max(1, len(part) // (12 if quick else 4))
            tasks.append(("props.c19", "eval_points", (part[:nsym], True, True), 1500))
            chunks.append(part[:nsym])
            if part[nsym:]:
                tasks.append(("props.c19", "eval_points", (part[nsym:], True, False), 1500))
                chunks.append(part[nsym:])
            pts += part
    res = workers.run_tasks(tasks, procs=ctx.cores)
    n_cmp = 0
    for ch, (status, outs) in zip(chunks, res):
        if status != "ok":
            ctx.dropped += len(ch)
            ctx.notes.append("%s: %s" % (status, str(outs)[-300:]))
            continue
        for p, o in zip(ch, outs):
            n_cmp += o["compared"]
            if o["mismatches"]:
                m = o["mismatches"][0]
                kind = m["name"]
                ctx.violation("kinematics:%s:%s" % (m["where"].split()[0], kind),
                              "%s %s expected %s observed %s" % (m["where"], m["name"], m["expected"], m["observed"]),
                              {"point": p, "mismatches": o["mismatches"]})
    cov = {"states": (ra.distinct or ra.states) + rs.states, "transitions": ra.states + rs.states,
           "traces_validated_against_impl": len(pts), "samples": [gen[0] if gen else axis[0]],
           "evaluations": n_cmp, "distinct_nontrivial": len(pts),
           "exhaustive": not quick, "calibration_groups": len(keys),
           "exhaustive_scope": ("thorough tier: all %d axis-aligned cases" % all_axis if not quick else "quick tier samples the axis-aligned family (%d drawn)" % all_axis)
                               + ": ori, cal in {+-1,+-i,+-j,+-k}, gyro and accelerometer on signed axes or zero, 2 bias/pose/velocity values",
           "rule": "point = (ori, cal, gyro, accel, bias, pose, velocity, dt, g); general points use non-unit integer quaternions and rational unit "
                   "quaternions; all 16 outputs compared (symbolic model exactly on a subset, compiled model with CSE off and on for every point)"}
    return finish(ctx, LEVEL, cov, ASSUME)


def replay(ctx, path):
    body = json.load(open(path))
    res = workers.run_tasks([("props.c19", "eval_points", ([body["payload"]["point"]], True, True), 600)], procs=1)
    print(json.dumps(res[0][1], indent=1)[:1500])
    return 1 if res[0][1][0]["mismatches"] else 0
