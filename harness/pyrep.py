"""spec -> code replay into the real Python objects (DESIGN 3.2).

A scenario (printed by TLC) holds the definition and a sequence of calls with the abstract
state the specification says must result.  `replay` builds the user's definition, compiles
it with the real library and steps through the calls; after every call the projected state
(read BY NAME through the layout the objects themselves publish) is compared with the
specification's exact value.
"""
import copy
import zlib
import math
import traceback
from fractions import Fraction

from build import (Definition, make_ui_model, ekf_args, named, fl, frac, interp, is_rat, BY_HARNESS, resolve_presentation,
                   is_rational_tree, well_conditioned)

RTOL = 1e-9


def close(obs, exp, rtol=RTOL):
    try:
        obs = float(obs)
    except Exception:
        return False
    if math.isnan(obs) or math.isinf(obs):
        return False
    return abs(obs - exp) <= rtol * max(1.0, abs(exp))


class Mismatch(dict):
    pass


def _exp_value(q, tree, env):
    """Expected number: TLC's exact rational, or the reference interpreter for fn trees.
    Returns None when the point is outside the tree's domain (skip)."""
    if is_rat(q):
        return fl(q)
    if tuple(q) == BY_HARNESS:
        try:
            v = interp(tree, env)
        except (ZeroDivisionError, ValueError, OverflowError):
            return None
        if math.isnan(v) or math.isinf(v) or abs(v) > 1e12:
            return None
        if not is_rational_tree(tree) and not well_conditioned(tree, env, v):
            return None       # ill-conditioned at this point (sin of a huge number, a pole nearby): "to floating-point accuracy" claims nothing here
        return v
    return None


# ------------------------------------------------------------ projections ----
def proj_vec(obj):
    return {str(s): float(obj.data[i, 0]) for i, s in enumerate(obj._arglist)}


def proj_cov(obj):
    names = [str(s) for s in obj._arglist]
    return {r: {c: float(obj.data[i, j]) for j, c in enumerate(names)} for i, r in enumerate(names)}


def proj_mat(arr, rows, cols):
    rows = [str(r) for r in rows]
    cols = [str(c) for c in cols]
    if arr.shape != (len(rows), len(cols)):
        raise ValueError("matrix shape %r does not match published layout %dx%d" % (arr.shape, len(rows), len(cols)))
    return {r: {c: float(arr[i, j]) for j, c in enumerate(cols)} for i, r in enumerate(rows)}


def cmp_vec(out, what, step_i, obs, exp, trees=None, env=None):
    exp = named(exp)
    if set(obs) != set(exp):
        out.append(Mismatch(step=step_i, what=what, name="<layout>", expected=sorted(exp), observed=sorted(obs)))
        return 0
    n = 0
    for name, q in exp.items():
        e = _exp_value(q, trees[name] if trees else None, env)
        if e is None:
            continue
        n += 1
        if not close(obs[name], e):
            out.append(Mismatch(step=step_i, what=what, name=name, expected=e, observed=obs[name]))
    return n


def cmp_mat(out, what, step_i, obs, exp, trees=None, env=None):
    exp = named(exp)
    n = 0
    if set(obs) != set(exp):
        out.append(Mismatch(step=step_i, what=what, name="<rows>", expected=sorted(exp), observed=sorted(obs)))
        return 0
    for r, row in exp.items():
        row = named(row)
        if set(obs[r]) != set(row):
            out.append(Mismatch(step=step_i, what=what, name="<cols of %s>" % r, expected=sorted(row), observed=sorted(obs[r])))
            continue
        for c, q in row.items():
            e = _exp_value(q, trees[r][c] if trees else None, env)
            if e is None:
                continue
            n += 1
            if not close(obs[r][c], e):
                out.append(Mismatch(step=step_i, what=what, name="%s,%s" % (r, c), expected=e, observed=obs[r][c]))
    return n


# ------------------------------------------------------------------ replay ----
class Replayed:
    def __init__(self):
        self.mismatches = []
        self.values = 0       # named values compared
        self.steps = 0
        self.skipped = None   # reason, when the scenario could not be replayed (machinery)
        self.trace = []       # per-step projected state (for differential use)


def needs_ekf(scn):
    return any(s["act"] != "ModelEval" for s in scn["steps"])


def build_py(d, ui, python, cse, want_ekf, presentation=None):
    pres = resolve_presentation(presentation, d)
    model, symtab = make_ui_model(d, ui, container=pres.get("container", set), order=pres.get("order"),
                                  as_string=pres.get("as_string", False), proactive_simplify=pres.get("proactive_simplify", False))
    cfg = {"common_subexpression_elimination": bool(cse), "innovation_filtering": d.gate()}
    from build import uses_fn, user_sat
    if any(uses_fn(t, "sat") for t in list(d.update.values()) + [t for m in d.sensors.values() for t in m.values()]):
        mods_ = list(python.DEFAULT_MODULES)
        extra = dict(mods_[-1]) if isinstance(mods_[-1], dict) else {}
        extra["sat"] = user_sat
        cfg["python_modules"] = tuple(mods_[:-1] + [extra]) if isinstance(mods_[-1], dict) else tuple(mods_ + [extra])
    pn, sm, sn, cm = ekf_args(d, symtab, order=pres.get("order"), variety=pres.get("variety"))
    if pres.get("variety"):
        cfg = python.Config(**cfg)        # the configuration as an object instead of a dict: the same configuration
    if want_ekf:
        impl = python.compile_ekf(model, process_noise=pn, sensor_models=sm, sensor_noises=sn,
                                  calibration_map=cm, config=cfg)
    else:
        impl = python.compile(model, calibration_map=cm, config=cfg)
    return impl, model, symtab


def replay(scn, ui, python, cse=True, presentation=None, force_ekf=False):
    """Returns Replayed.  Exceptions of the code under test on spec-accepted input are
    mismatches (what='exception'); harness problems set .skipped."""
    res = Replayed()
    d = Definition(scn["def"])
    want_ekf = force_ekf or needs_ekf(scn)
    try:
        impl, model, symtab = build_py(d, ui, python, cse, want_ekf, presentation)
    except Exception as e:  # a valid definition must compile
        if undefined_everywhere(scn):
            # an expression that is undefined at every point (x / (dt - dt): sympy folds it to zoo, which neither back-end can
            # spell): the properties quantify over points where the expressions are defined -- nothing to replay, no claim
            res.skipped = "definition undefined everywhere: " + repr(e)[:120]
            return res
        res.mismatches.append(Mismatch(step=-1, what="exception", name="compile",
                                       expected="accepted", observed=repr(e), tb=traceback.format_exc()[-1500:]))
        return res
    calenv = {c: fl(d.calmap[c]) for c in d.calib}
    est = None
    kept = []        # results handed out earlier must not change when the model is used again
    kept_h = []
    reused_state = None      # ONE State object overwritten in place from evaluation to evaluation
    stored = {}      # sensor key -> (innovation, S) as stored at its last update
    ghost = None
    other = None
    if want_ekf and zlib.crc32(str(scn.get("_id", "")).encode()) % 2 == 0:
        # a second filter object in the same process, built AFTER the first from a DIFFERENT definition with the same symbol, sensor
        # and reading names (every expression e becomes 2 e + 1): nothing a later filter compiles may reach an earlier one
        try:
            import copy as _copy

            def _twice_plus_one(t):
                return {"op": "add", "l": {"op": "mul", "l": {"op": "const", "val": [2, 1]}, "r": t}, "r": {"op": "const", "val": [1, 1]}}
            j2 = _copy.deepcopy(scn["def"])
            j2["update"] = {n: _twice_plus_one(t) for n, t in named(j2["update"]).items()}
            j2["sensors"] = {k: {r: _twice_plus_one(t) for r, t in named(m).items()} for k, m in named(j2["sensors"]).items()}
            other = build_py(Definition(j2), ui, python, cse, True, presentation)[0]
        except Exception:
            other = None         # (the modified definition need not compile; only its side effects on the first filter matter)
    if want_ekf and any(st["act"] == "Update" for st in scn["steps"]) and zlib.crc32(str(scn.get("_id", "")).encode()) % 3 == 0:
        ghost = build_py(d, ui, python, cse, True, presentation)[0]      # a second filter object built from the same definition
    # (only in behaviours without prediction steps: a model like u' = z0/dt, z0' = u amplifies the 2^-40 by 8 per step)
    asym = bool(resolve_presentation(presentation, d).get("variety")) and not any(st["act"] == "Predict" for st in scn["steps"])
    lay = scn.get("layout")
    if lay:
        # the layouts the objects publish must be the specification's name order (SortNames)
        m = impl._state_model if want_ekf else impl
        pub = {"state": [str(x) for x in m.arglist_state], "control": [str(x) for x in m.arglist_control],
               "calib": [str(x) for x in m.arglist_calibration]}
        pub2 = {"State": [str(x) for x in m.State._arglist], "Control": [str(x) for x in m.Control._arglist]}
        for role in ("state", "control", "calib"):
            if pub[role] != list(lay[role]):
                res.mismatches.append(Mismatch(step=-1, what="layout", name=role, expected=list(lay[role]), observed=pub[role]))
        if pub2["State"] != list(lay["state"]) or pub2["Control"] != list(lay["control"]):
            res.mismatches.append(Mismatch(step=-1, what="layout", name="State/Control classes", expected=[lay["state"], lay["control"]], observed=pub2))
        if want_ekf:
            if [str(x) for x in impl.arglist_state] != list(lay["state"]) or [str(x) for x in impl.arglist_control] != list(lay["control"]):
                res.mismatches.append(Mismatch(step=-1, what="layout", name="ekf", expected=lay["state"], observed=[str(x) for x in impl.arglist_state]))
            if [str(x) for x in impl.arglist_calibration] != list(lay["calib"]):
                res.mismatches.append(Mismatch(step=-1, what="layout", name="ekf-calibration", expected=list(lay["calib"]), observed=[str(x) for x in impl.arglist_calibration]))
            for key, rs in named(lay["readings"]).items():
                smc = impl.sensor_models[key]
                if [str(x) for x in smc.arglist_calibration] != list(lay["calib"]):
                    res.mismatches.append(Mismatch(step=-1, what="layout", name="sensor-model-calibration:" + key, expected=list(lay["calib"]), observed=[str(x) for x in smc.arglist_calibration]))
                got = [str(r) for r in impl.sensor_models[key].readings]
                if got != list(rs):
                    res.mismatches.append(Mismatch(step=-1, what="layout", name="readings:" + key, expected=list(rs), observed=got))
                sm = impl.sensor_models[key]
                if [str(x) for x in sm.arglist_state] != list(lay["state"]):
                    res.mismatches.append(Mismatch(step=-1, what="layout", name="sensor-model-state:" + key, expected=lay["state"], observed=[str(x) for x in sm.arglist_state]))
    for i, st in enumerate(scn["steps"]):
        act = st["act"]
        res.steps += 1
        try:
            if act in ("ModelEval", "JacEval"):
                x = {n: fl(q) for n, q in named(st["x"]).items()}
                u = {n: fl(q) for n, q in named(st["u"]).items()}
                dt = fl(st["dt"])
                env = dict(calenv)
                env.update(x)
                env.update(u)
                env["dt"] = dt
                state = impl.State(**x)
                control = impl.Control(**u)
                # a point belongs to the model's domain only if EVERY output is defined there (the call returns all of them or
                # raises): outputs with elementary functions are the harness interpreter's business (the spec marks them ByHarness)
                if _outside_domain(st, d, env, act):
                    res.trace.append({})
                    continue
                if act == "ModelEval":
                    m = impl._state_model if want_ekf else impl
                    # the model is a function of the VALUES it is given: ONE State object that the caller keeps and overwrites in
                    # place between calls (a simulation loop) is evaluated first, a fresh object with the same values second
                    if reused_state is None:
                        reused_state = impl.State(**x)
                    else:
                        reused_state.data[:] = state.data
                    out2 = m.model(dt, reused_state, control) if d.control else m.model(dt, reused_state)
                    if d.control:
                        out = m.model(dt, state, control)
                    else:
                        out = m.model(dt, state)       # no control declared: callable without it
                    obs = proj_vec(out)
                    res.trace.append(obs)
                    res.values += cmp_vec(res.mismatches, "xn", i, obs, st["xn"], d.update, env)
                    kept.append((i, out, st, env))
                    import numpy as np
                    if not np.array_equal(out2.data, out.data, equal_nan=True):
                        res.mismatches.append(Mismatch(step=i, what="xn-with-a-reused-state-object", name="model", expected=obs, observed=proj_vec(out2)))
                else:
                    G = impl.process_jacobian(dt, state, control)
                    V = impl.control_jacobian(dt, state, control)
                    oG = proj_mat(G, impl.arglist_state, impl.arglist_state)
                    oV = proj_mat(V, impl.arglist_state, impl.arglist_control)
                    res.trace.append({"G": oG, "V": oV})
                    Gt = named(st.get("Gt")) or None
                    Vt = named(st.get("Vt")) or None
                    res.values += cmp_mat(res.mismatches, "G", i, oG, st["G"], Gt, env)
                    res.values += cmp_mat(res.mismatches, "V", i, oV, _fill_rows(st["V"], d.state), Vt, env)
            elif act == "SensEval":
                key = st["key"]
                x = {n: fl(q) for n, q in named(st["x"]).items()}
                env = dict(calenv)
                env.update(x)
                state = impl.State(**x)
                sm = impl.sensor_models[key]
                if _outside_domain(st, d, env, act):
                    res.trace.append({})
                    continue
                h = sm.model(state)
                H = impl.sensor_jacobian(key, state)
                oh = proj_vec(h)
                oH = proj_mat(H, sm.readings, impl.arglist_state)
                res.trace.append({"h": oh, "H": oH})
                Ht = named(st.get("Ht")) or None
                res.values += cmp_vec(res.mismatches, "h", i, oh, st["h"], d.sensors[key], env)
                kept_h.append((i, h, st, key, env))
                res.values += cmp_mat(res.mismatches, "H", i, oH, st["H"], Ht, env)
            elif act == "SetEstimate":
                x = {n: fl(q) for n, q in named(st["x"]).items()}
                state = impl.State(**x)
                names = [str(s) for s in impl.Covariance._arglist]
                import numpy as np
                data = np.zeros((len(names), len(names)))
                for a, r in enumerate(names):
                    for b, c in enumerate(names):
                        data[a, b] = fl(st["P"][r][c])
                if asym and len(names) >= 2:
                    # a covariance that is symmetric only up to rounding (2^-40 relative on one off-diagonal entry): accepted by the
                    # library, expectations move by < 1e-12; makes "a discard leaves the covariance EXACTLY as it was" observable
                    data[0, 1] += (abs(data[0, 1]) + float(np.max(np.abs(data)))) * 2.0 ** -40       # (relative to the covariance's magnitude)
                cov = impl.Covariance.from_data(data)
                est = (state, cov)
                res.trace.append({"x": proj_vec(state), "P": proj_cov(cov)})
            elif act == "Predict":
                u = {n: fl(q) for n, q in named(st["u"]).items()}
                control = impl.Control(**u)
                dt = fl(st["dt"])
                s0, c0 = copy.deepcopy(est[0].data), copy.deepcopy(est[1].data)
                u0 = copy.deepcopy(control.data)
                if d.control:
                    nxt = impl.process_model(dt, est[0], est[1], control)
                else:
                    nxt = impl.process_model(dt, est[0], est[1])
                ox, oP = proj_vec(nxt.state), proj_cov(nxt.covariance)
                res.values += cmp_vec(res.mismatches, "x", i, ox, st["x"])
                res.values += cmp_mat(res.mismatches, "P", i, oP, st["P"])
                # C04: inputs unmodified, call repeatable
                import numpy as np
                if not (np.array_equal(s0, est[0].data) and np.array_equal(c0, est[1].data)
                        and np.array_equal(u0, control.data)):
                    res.mismatches.append(Mismatch(step=i, what="inputs-modified", name="process_model",
                                                   expected="unmodified", observed="modified"))
                again = impl.process_model(dt, est[0], est[1], control)
                if not (np.array_equal(again.state.data, nxt.state.data)
                        and np.array_equal(again.covariance.data, nxt.covariance.data)):
                    res.mismatches.append(Mismatch(step=i, what="not-repeatable", name="process_model",
                                                   expected="identical", observed="different"))
                est = (nxt.state, nxt.covariance)
                res.trace.append({"x": ox, "P": oP})
            elif act == "Update":
                key = st["key"]
                z = {n: fl(q) for n, q in named(st["z"]).items()}
                # keyword order is the caller's business (C13): written sorted, reversed or rotated, the reading is the same
                zk = sorted(z)
                how = zlib.crc32(("%s:%d" % (scn.get("_id", ""), i)).encode()) % 3
                zk = zk if how == 0 else (zk[::-1] if how == 1 else zk[1:] + zk[:1])
                reading = impl.make_reading(key, **{n: z[n] for n in zk})
                import numpy as np
                s0, c0 = copy.deepcopy(est[0].data), copy.deepcopy(est[1].data)
                nxt = impl.sensor_model(est[0], est[1], sensor_key=key, sensor_reading=reading)
                ox, oP = proj_vec(nxt.state), proj_cov(nxt.covariance)
                sm = impl.sensor_models[key]
                oin = {str(r): float(impl.innovations[key][j, 0]) for j, r in enumerate(sm.readings)}
                oS = proj_mat(impl.sensor_prediction_uncertainty[key], sm.readings, sm.readings)
                res.values += cmp_vec(res.mismatches, "x", i, ox, st["x"])
                res.values += cmp_mat(res.mismatches, "P", i, oP, st["P"])
                if "innov" in st:
                    res.values += cmp_vec(res.mismatches, "innov", i, oin, st["innov"])
                if "S" in st:
                    res.values += cmp_mat(res.mismatches, "S", i, oS, st["S"])
                if st["outcome"] == "rejected":
                    # a discard changes NOTHING: bit-identical estimate
                    if not (np.array_equal(nxt.state.data, s0) and np.array_equal(nxt.covariance.data, c0)):
                        res.mismatches.append(Mismatch(step=i, what="discard-changed-estimate", name=key,
                                                       expected="unchanged", observed="changed"))
                if not (np.array_equal(s0, est[0].data) and np.array_equal(c0, est[1].data)):
                    res.mismatches.append(Mismatch(step=i, what="inputs-modified", name="sensor_model",
                                                   expected="unmodified", observed="modified"))
                est = (nxt.state, nxt.covariance)
                res.trace.append({"x": ox, "P": oP, "innov": oin, "S": oS, "outcome": st["outcome"]})
                # what the filter stored for a sensor stays what it was until THAT sensor is updated again, whatever other
                # sensors (or another filter object) are given
                stored[key] = (impl.innovations[key].copy(), impl.sensor_prediction_uncertainty[key].copy())
                if ghost is not None:
                    gz = impl.make_reading(key, **{n: v + 3.0 for n, v in z.items()})
                    gx = ghost.State.from_data(s0 + 1.0)
                    try:
                        ghost.sensor_model(gx, ghost.Covariance.from_data(c0), sensor_key=key, sensor_reading=ghost.make_reading(key, data=gz.data))
                    except (AssertionError, ZeroDivisionError, ValueError, FloatingPointError, OverflowError):
                        pass          # the perturbed point may be outside the model's domain; only its side effects matter
                for k2, (inn0, S0) in stored.items():
                    if not (np.array_equal(impl.innovations[k2], inn0) and np.array_equal(impl.sensor_prediction_uncertainty[k2], S0)):
                        res.mismatches.append(Mismatch(step=i, what="stored-innovation-changed", name=k2,
                                                       expected="as recorded at the last update of sensor %s" % k2, observed="changed after an update of sensor %s" % key))
            else:
                res.skipped = "unknown act %s" % act
                return res
        except Exception as e:
            res.mismatches.append(Mismatch(step=i, what="exception", name=act, expected="a result",
                                           observed=repr(e)[:500], tb=traceback.format_exc()[-1500:]))
            return res
    for i, out, st, env in kept:
        cmp_vec(res.mismatches, "xn-reread-at-end", i, proj_vec(out), st["xn"], d.update, env)
    for i, h, st, key, env in kept_h:
        cmp_vec(res.mismatches, "h-reread-at-end", i, proj_vec(h), st["h"], d.sensors[key], env)
    return res


def undefined_everywhere(scn):
    """some update / sensor expression of the definition is undefined (or non-finite) at EVERY evaluation point of the behaviour"""
    d = Definition(scn["def"])
    pts = []
    for st in scn["steps"]:
        if "x" in st:
            env = {c: fl(d.calmap[c]) for c in d.calib}
            env.update({n: fl(q) for n, q in named(st["x"]).items()})
            env.update({n: fl(q) for n, q in named(st.get("u", {})).items()})
            env["dt"] = fl(st["dt"]) if "dt" in st else 0.125
            for c in d.control:
                env.setdefault(c, 0.5)
            pts.append(env)
    if not pts:
        return False
    for t in list(d.update.values()) + [t for m in d.sensors.values() for t in m.values()]:
        if all(_try(t, env) is None for env in pts):
            return True
    return False


def _outside_domain(st, d, env, act):
    """True if some ByHarness output of this evaluation step is undefined at the point (division by zero, domain error)"""
    def undefined(q, tree):
        return tuple(q) == BY_HARNESS and _exp_value(q, tree, env) is None
    if act == "ModelEval":
        return any(undefined(q, d.update[n]) for n, q in named(st["xn"]).items())
    if act == "JacEval":
        Gt, Vt = named(st.get("Gt")), named(st.get("Vt"))
        bad = any(undefined(q, Gt[r][c]) for r, row in named(st["G"]).items() for c, q in named(row).items() if Gt)
        bad = bad or any(undefined(q, Vt[r][c]) for r, row in named(st["V"]).items() for c, q in named(row).items() if Vt and named(row))
        # the Jacobian is evaluated together with the model itself in process_model; the trees of the updates must be defined too
        return bad or any((not __import__("build").is_rational_tree(t)) and _try(t, env) is None for t in d.update.values())
    if act == "SensEval":
        Ht = named(st.get("Ht"))
        key = st["key"]
        bad = any(undefined(q, d.sensors[key][r]) for r, q in named(st["h"]).items())
        return bad or any(undefined(q, Ht[r][c]) for r, row in named(st["H"]).items() for c, q in named(row).items() if Ht)
    return False


def _try(tree, env):
    try:
        v = interp(tree, env)
        return v if (not math.isnan(v) and not math.isinf(v)) else None
    except (ZeroDivisionError, ValueError, OverflowError, KeyError):
        return None


def _fill_rows(M, rows):
    """TLC prints [r \\in S |-> [c \\in {} |-> ..]] as {r: []}; normalise."""
    M = named(M)
    return {r: named(M.get(r, {})) for r in rows} if M else {r: {} for r in rows}
