INIT Init
NEXT Next
CONSTANTS
  Ids = {1, 2, 3}
  Start = 1
  RealOnly = TRUE
  RealEdges <- cRealEdges
  MaxMoves = 3
  EmitOn = TRUE
INVARIANT InvHistoryIsWalk
INVARIANT InvSearch
PROPERTY ActHistoryGrows
CHECK_DEADLOCK FALSE
