INIT Init
NEXT Next
CONSTANTS
  Ms <- cMs
  Ks <- cKs
  YVals <- cY
  SDiag <- cS
  EmitOn = TRUE
INVARIANT InvBoundaryKept
INVARIANT InvDisabled
INVARIANT InvMonotone
CHECK_DEADLOCK FALSE
