INIT TInit
NEXT TNext
CONSTANTS
  MaxN = 3
  Containers = {"set"}
  NumPres = 1
CONSTRAINT Reach
POSTCONDITION Post
CHECK_DEADLOCK FALSE
