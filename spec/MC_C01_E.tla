---- MODULE MC_C01_E ----
(* exhaustive: every definition with 1..2 states, 0..1 control, 0..1 calibration and at most one
   grown node over all operators; fixed names (role order differs from sort order); 2 of 3 points *)
EXTENDS Formak
cShapes == {[nS |-> a, nC |-> b, nK |-> c, sens |-> <<>>] : a \in 1..2, b \in 0..1, c \in 0..1}
cSyms == {"b", "A0", "a_", "a1"}
cSeq == <<"b", "A0", "a_", "a1">>
cOps == {"add","sub","mul","div","neg","pow2","pow3","sin","cos","exp","tanh","atan","sqrt1","log1","tan","asinb","acosb","muldt","abs1"}
cConsts == <<RI(2), RQ(1,2)>>
cVals == <<RI(1), RI(-2), RI(3), RQ(1,2)>>
cDts == <<RQ(1,4)>>
cCalVals == <<RI(2)>>
cOne == <<RI(1)>>
cKs == {NoGate}
cInts == <<1>>
cActs == {"ModelEval"}
====
