------------------------------ MODULE Estimator ------------------------------
(***************************************************************************)
(* The scikit-learn adapter (python.SklearnEKFAdapter) as a record of      *)
(* parameters with commands; every command has an explicit frame           *)
(* condition (C17, and the "do not change the parameters" part of C16).    *)
(*                                                                         *)
(* Abstract parameter values:                                              *)
(*   symbolic_model, sensor_models, calibration_map : identity tokens      *)
(*   process_noise : [id, keys (control names), finite, positive]          *)
(*   sensor_noises : [id, keys (sensor -> reading names), finite]          *)
(*   config        : [field -> value token]                                *)
(* A universe fixes the controls and the sensors/readings of the model.    *)
(***************************************************************************)
EXTENDS Integers, Sequences, FiniteSets, TLC, Json

CONSTANTS Universes,    \* sequence of [controls : set, controls2 : set, sensors : key -> set of readings]
          ModelToks, SModelToks, CalToks, PNoiseToks, SNoiseToks,
          AltModelToks, AltPNoiseToks,   \* the same models / noise maps with the controls RENAMED (controls2)
          ConfigVals,   \* [field -> set of value tokens]
          BogusKeys,    \* parameter names that do not exist
          MaxCmds, MaxFits, EmitOn

AllowedKeys  == {"symbolic_model", "process_noise", "sensor_models", "sensor_noises", "calibration_map", "config"}
ConfigFields == DOMAIN ConfigVals

VARIABLES uni, params, orig, log, fits, done
vars == <<uni, params, orig, log, fits, done>>

U == Universes[uni]
CtlOf(m) == IF m \in AltModelToks THEN U.controls2 ELSE U.controls
PN(tok) == [id |-> tok, keys |-> IF tok \in AltPNoiseToks THEN U.controls2 ELSE U.controls, finite |-> TRUE, positive |-> TRUE]
SN(tok) == [id |-> tok, keys |-> U.sensors, finite |-> TRUE]
Configs == [ConfigFields -> UNION {ConfigVals[f] : f \in ConfigFields}]
ConfigOK(c) == \A f \in ConfigFields : c[f] \in ConfigVals[f]

Init ==
  /\ uni \in DOMAIN Universes
  /\ \E m \in ModelToks, s \in SModelToks, c \in CalToks, p \in PNoiseToks, n \in SNoiseToks :      \* (starts with the original names)
       \E cfg \in {x \in Configs : ConfigOK(x)} :
         params = [symbolic_model |-> m, sensor_models |-> s, calibration_map |-> c,
                   process_noise |-> PN(p), sensor_noises |-> SN(n), config |-> cfg]
  /\ orig = params /\ log = <<>> /\ fits = 0 /\ done = FALSE

Can == ~done /\ Len(log) < MaxCmds

Record(cmd, args, outcome, post) == log' = Append(log, [cmd |-> cmd, args |-> args, outcome |-> outcome, post |-> post])

\* reading the parameters changes nothing, and writing back what was read is the identity
GetSetRoundTrip ==
  /\ Can /\ Record("get_then_set", <<>>, "ok", params)
  /\ UNCHANGED <<uni, params, orig, fits, done>>

\* a top-level parameter is replaced as a whole
TokDomain(k) == CASE k = "symbolic_model" -> ModelToks \cup AltModelToks [] k = "sensor_models" -> SModelToks [] k = "calibration_map" -> CalToks
\* (a model can only be exchanged on its own for one with the same control names: the noise map must keep naming its controls)
SetTok(k, v) ==
  /\ Can /\ k \in {"symbolic_model", "sensor_models", "calibration_map"} /\ v \in TokDomain(k)
  /\ (k = "symbolic_model" => CtlOf(v) = params.process_noise.keys)
  /\ params' = [params EXCEPT ![k] = v]
  /\ Record("set_params", <<k, v>>, "ok", params')
  /\ UNCHANGED <<uni, orig, fits, done>>
SetPNoise(t) ==
  /\ Can /\ t \in PNoiseToks \cup AltPNoiseToks /\ PN(t).keys = CtlOf(params.symbolic_model)
  /\ params' = [params EXCEPT !.process_noise = PN(t)]
  /\ Record("set_params", <<"process_noise", t>>, "ok", params')
  /\ UNCHANGED <<uni, orig, fits, done>>
SetSNoise(t) ==
  /\ Can /\ t \in SNoiseToks
  /\ params' = [params EXCEPT !.sensor_noises = SN(t)]
  /\ Record("set_params", <<"sensor_noises", t>>, "ok", params')
  /\ UNCHANGED <<uni, orig, fits, done>>

\* a configuration field changes exactly that field
SetConfigField(f, v) ==
  /\ Can /\ f \in ConfigFields /\ v \in ConfigVals[f]
  /\ params' = [params EXCEPT !.config[f] = v]
  /\ Record("set_params", <<f, v>>, "ok", params')
  /\ UNCHANGED <<uni, orig, fits, done>>

\* several names in ONE call: every one of them takes effect (a grid search sets two hyper-parameters at once)
SetTwoFields(f1, v1, f2, v2) ==
  /\ Can /\ f1 \in ConfigFields /\ f2 \in ConfigFields /\ f1 # f2 /\ v1 \in ConfigVals[f1] /\ v2 \in ConfigVals[f2]
  /\ params' = [params EXCEPT !.config[f1] = v1, !.config[f2] = v2]
  /\ Record("set_params", <<f1, v1, f2, v2>>, "ok", params')
  /\ UNCHANGED <<uni, orig, fits, done>>
SetNoiseAndField(t, f, v) ==
  /\ Can /\ t \in PNoiseToks \cup AltPNoiseToks /\ PN(t).keys = CtlOf(params.symbolic_model) /\ f \in ConfigFields /\ v \in ConfigVals[f]
  /\ params' = [params EXCEPT !.process_noise = PN(t), !.config[f] = v]
  /\ Record("set_params", <<"process_noise", t, f, v>>, "ok", params')
  /\ UNCHANGED <<uni, orig, fits, done>>

\* the model AND its process noise in one call: a model whose controls have other names comes with a noise map that names them
\* (nothing of the previous model -- not even a list of its control names -- may survive, also not after a fit)
SetModelAndNoise(m, t) ==
  /\ Can /\ m \in ModelToks \cup AltModelToks /\ t \in PNoiseToks \cup AltPNoiseToks /\ PN(t).keys = CtlOf(m)
  /\ params' = [params EXCEPT !.symbolic_model = m, !.process_noise = PN(t)]
  /\ Record("set_params", <<"symbolic_model", m, "process_noise", t>>, "ok", params')
  /\ UNCHANGED <<uni, orig, fits, done>>

\* a replacement configuration AND one of its fields in the same call (the field is applied to the NEW configuration)
SetConfigAndField(cfg, f, v) ==
  /\ Can /\ cfg \in Configs /\ ConfigOK(cfg) /\ f \in ConfigFields /\ v \in ConfigVals[f]
  /\ params' = [params EXCEPT !.config = [cfg EXCEPT ![f] = v]]
  /\ Record("set_params", <<"config", cfg, f, v>>, "ok", params')
  /\ UNCHANGED <<uni, orig, fits, done>>

\* the whole configuration is replaced
SetConfig(cfg) ==
  /\ Can /\ cfg \in Configs /\ ConfigOK(cfg)
  /\ params' = [params EXCEPT !.config = cfg]
  /\ Record("set_params", <<"config", cfg>>, "ok", params')
  /\ UNCHANGED <<uni, orig, fits, done>>

\* unknown names are refused and nothing changes
SetBogus(k) ==
  /\ Can /\ k \in BogusKeys
  /\ Record("set_params", <<k, "x">>, "refused", params)
  /\ UNCHANGED <<uni, params, orig, fits, done>>

\* cloning yields an estimator with the same parameters and leaves the original alone
Clone ==
  /\ Can /\ Record("clone", <<>>, "ok", params)
  /\ UNCHANGED <<uni, params, orig, fits, done>>

\* transform / mahalanobis / score never change the parameters; neither does exporting the filter (export_python hands out
\* a filter built from exactly the current parameters -- the trace specification compares its configuration and noises)
Queries == {"transform", "mahalanobis", "score", "export_python"}
Query(q) ==
  /\ Can /\ q \in Queries
  /\ Record(q, <<>>, "ok", params)
  /\ UNCHANGED <<uni, params, orig, fits, done>>

(***************************************************************************)
(* Fitting: either the library's minimisation error, or an estimator that  *)
(* differs only in noise magnitudes -- the fitted maps name exactly the    *)
(* same controls / sensors / readings, every magnitude is finite and       *)
(* process noise is strictly positive.                                     *)
(***************************************************************************)
FitPost(p) == [p EXCEPT !.process_noise = [id |-> "fitted", keys |-> p.process_noise.keys, finite |-> TRUE, positive |-> TRUE],
                        !.sensor_noises = [id |-> "fitted", keys |-> p.sensor_noises.keys, finite |-> TRUE]]
\* fit_transform is fit followed by transform of the same data with the fitted estimator: the same parameter change
FitCmds == {"fit", "fit_transform"}
FitOkC(c) ==
  /\ Can /\ fits < MaxFits /\ c \in FitCmds
  /\ params' = FitPost(params)
  /\ Record(c, <<>>, "ok", params')
  /\ fits' = fits + 1
  /\ UNCHANGED <<uni, orig, done>>
\* (the property makes no claim about the parameters after a failed fit; the behaviour ends there)
FitFailC(c) ==
  /\ Can /\ fits < MaxFits /\ c \in FitCmds
  /\ Record(c, <<>>, "MinimizationFailure", params)
  /\ done' = TRUE
  /\ UNCHANGED <<uni, params, orig, fits>>
FitOk == \E c \in FitCmds : FitOkC(c)
FitFail == \E c \in FitCmds : FitFailC(c)
\* (one action for the simulator, see SetAny)
FitAny == Can /\ (FitOk \/ FitFail)

Emit ==
  /\ ~done /\ Len(log) >= 1 /\ EmitOn
  /\ PrintT(ToJson([universe |-> uni, init |-> orig, cmds |-> log]))
  /\ done' = TRUE
  /\ UNCHANGED <<uni, params, orig, log, fits>>

\* (grouped under one conjunction so that TLC's simulator, which first draws an action uniformly, does not
\* spend nine draws out of ten on set_params)
SetAny ==
  Can /\ ( \/ \E k \in {"symbolic_model", "sensor_models", "calibration_map"} : \E v \in ModelToks \cup SModelToks \cup CalToks : SetTok(k, v)
           \/ \E t \in PNoiseToks \cup AltPNoiseToks : SetPNoise(t)
           \/ \E m \in ModelToks \cup AltModelToks : \E t \in PNoiseToks \cup AltPNoiseToks : SetModelAndNoise(m, t)
           \/ \E t \in SNoiseToks : SetSNoise(t)
           \/ \E f \in ConfigFields : \E v \in ConfigVals[f] : SetConfigField(f, v)
           \/ \E cfg \in {x \in Configs : ConfigOK(x)} : SetConfig(cfg)
           \/ \E f1 \in ConfigFields : \E f2 \in ConfigFields : \E v1 \in ConfigVals[f1] : \E v2 \in ConfigVals[f2] : SetTwoFields(f1, v1, f2, v2)
           \/ \E t \in PNoiseToks \cup AltPNoiseToks : \E f \in ConfigFields : \E v \in ConfigVals[f] : SetNoiseAndField(t, f, v)
           \/ \E cfg \in {x \in Configs : ConfigOK(x)} : \E f \in ConfigFields : \E v \in ConfigVals[f] : SetConfigAndField(cfg, f, v)
           \/ \E k \in BogusKeys : SetBogus(k) )
QueryAny == Can /\ \E q \in Queries : Query(q)

Next ==
  \/ GetSetRoundTrip
  \/ SetAny
  \/ Clone
  \/ QueryAny
  \/ FitAny
  \/ Emit

\* fingerprint without the command history (exhaustive configuration)
View == <<uni, params, fits, done, Len(log)>>

(***************************************************************************)
(* Theorems                                                                *)
(***************************************************************************)
\* fitting (and everything else but set_params on that very parameter) never changes the model,
\* the sensor models, the calibration or a configuration field it was not asked to change
ActFrame ==
  [][ \A k \in {"symbolic_model", "sensor_models", "calibration_map"} :
        params'[k] # params[k] => (log' # log /\ log'[Len(log')].cmd = "set_params" /\ (log'[Len(log')].args[1] = k \/ (Len(log'[Len(log')].args) = 4 /\ log'[Len(log')].args[3] = k))) ]_vars
ActConfigFrame ==
  [][ \A f \in ConfigFields :
        params'.config[f] # params.config[f] => (log' # log /\ log'[Len(log')].cmd = "set_params" /\ (log'[Len(log')].args[1] \in {f, "config"} \/ (Len(log'[Len(log')].args) = 4 /\ log'[Len(log')].args[3] = f))) ]_vars
\* noise maps always name exactly the controls / sensors / readings of the model
InvNoiseKeys == params.process_noise.keys = CtlOf(params.symbolic_model) /\ params.sensor_noises.keys = U.sensors
InvNoiseSane == params.process_noise.finite /\ params.process_noise.positive /\ params.sensor_noises.finite
=============================================================================
