"""C10 -- the managed filter moves through time in bounded, correctly directed steps."""
import json

import mfcheck
from common import finish

LEVEL = "model_checking"
ASSUME = ["dyadic time grid (1 unit = 2^-10 s) makes every float operation of the runtimes exact, so the real step "
          "sequence must equal the specification's plan exactly",
          "C++: recording Impl with exactly the process_model signatures FormaK generates, real ManagedFilter.h, g++ 12 -std=c++20",
          "Python: duck-typed recording filter, real formak.runtime.ManagedFilter"]


def run(ctx):
    scns, stats = mfcheck.generate(ctx, ctx.quick)
    if scns is None:
        ctx.violation("spec-invariant", stats["tlc_violation"][:500], stats)
        return finish(ctx, LEVEL, {"states": 1, "transitions": 1, "traces_validated_against_impl": 0, "samples": [stats]}, ASSUME)
    steps_checked = 0
    # ---- Python ----
    pres = mfcheck.replay_python(ctx, scns)
    for s, o in zip(scns, pres):
        mm = o["mismatch"]
        if not mm:
            steps_checked += o["calls"]
            continue
        if mm["what"] in ("returned-call-sequence", "held-estimate"):
            exp = mm["expected"] if mm["what"] == "returned-call-sequence" else mm["expected"][1]
            obs = mm["observed"] if mm["what"] == "returned-call-sequence" else mm["observed"][1]
            if mfcheck.pproj(exp) != mfcheck.pproj(obs):
                back = any(d < 0 for d in mfcheck.pproj(exp))
                ctx.violation("py:steps:%s" % ("backward" if back else "forward"),
                              "tick %d: expected steps %s, runtime.py issued %s" % (mm["tick"], mfcheck.pproj(exp)[:8], mfcheck.pproj(obs)[:8]),
                              {"scenario": s, "mismatch": mm, "unit_s": mfcheck.UNIT})
        elif mm["what"] == "exception":
            ctx.violation("py:exception", mm["observed"], {"scenario": s, "mismatch": mm})
    # ---- C++ ----
    cres = mfcheck.replay_cpp(ctx, scns)
    for (hc, hk), r in sorted(cres.items()):
        if r["build"] is not None:
            ctx.violation("cpp:build:control=%d,calibration=%d" % (hc, hk),
                          "ManagedFilter<Impl> does not compile for this combination: " + r["build"][-600:],
                          {"combo": [hc, hk], "stderr": r["build"]})
            continue
        for si, s in enumerate(r["scns"], start=1):
            for ti, tk in enumerate(s["ticks"], start=1):
                if tk["refused"] or (hc and not tk["ctl"]):
                    continue
                obs = r["rets"].get((si, ti))
                if obs is None:
                    ctx.violation("cpp:no-output", "no result for tick", {"scenario": s, "tick": ti, "combo": [hc, hk]})
                    break
                exp = mfcheck.expected_ops(tk, r["keyidx"], has_control=bool(hc))
                steps_checked += len(obs)
                if mfcheck.pproj(exp) != mfcheck.pproj(obs):
                    back = any(d < 0 for d in mfcheck.pproj(exp))
                    ctx.violation("cpp:steps:%s" % ("backward" if back else "forward"),
                                  "control=%d calibration=%d tick %d: expected steps %s, ManagedFilter.h issued %s" %
                                  (hc, hk, ti, mfcheck.pproj(exp)[:8], mfcheck.pproj(obs)[:8]),
                                  {"scenario": s, "tick": ti, "combo": [hc, hk], "expected": exp, "observed": obs, "unit_s": mfcheck.UNIT})
                    break
    dec = decimal_part(ctx)
    nontriv = sum(1 for s in scns if any(len(mfcheck.pproj(mfcheck.expected_ops(tk))) >= 2 for tk in s["ticks"]))
    cov = {"states": stats["states"], "transitions": stats["transitions"],
           "traces_validated_against_impl": len(scns) * 3,
           "samples": scns[:1] + scns[-1:],
           "evaluations": steps_checked, "distinct_nontrivial": nontriv,
           "rule": "behaviour = (max_dt, start time, sequence of ticks with readings); non-trivial = some travel needs >= 2 steps; "
                   "each behaviour is replayed into runtime.py and into ManagedFilter.h for both calibration settings",
           "exhaustive": bool(stats.get("exhaustive_replayed_all")),
           "exhaustive_scope": "MC_MF_E1: every single tick from 7 start times x 7 output times x <=2 readings x max_dt in {1,2,3} units; "
                               "PlanTheorem (direction, bound, sum, emptiness) checked by TLC for all from,to in -40..40 and 8 max_dt values",
           "tlc_runs": stats["tlc_runs"], "decimal_grid": dec}
    return finish(ctx, LEVEL, cov, ASSUME)


def decimal_part(ctx):
    """(b) decimal, non-representable times: unit 0.01 s, max_dt in {0.01, 0.05, 0.1, 0.3}; travels recorded from both runtimes are
    validated by TLC against PlanOK (MF_Trace.tla), the property's own statement with its own 1e-9 s slack."""
    import tlc
    import trace
    import workers
    import mfcpp
    unit = 0.01
    r = tlc.run("MC_MF_dec", mode="sim", workers=8, num=(40 if ctx.quick else 1500), depth=40, seed=ctx.seed + 5, timeout=900)
    if r.violation:
        ctx.violation("spec-invariant", r.violation[:500], {})
    scns = r.printed
    chunks = [scns[i::ctx.cores] for i in range(ctx.cores)]
    chunks = [c for c in chunks if c]
    res = workers.run_tasks([("tasks", "mf_decimal_batch", (c, unit), 900) for c in chunks], procs=ctx.cores)
    traces, meta = [], []
    for c, (status, outs) in zip(chunks, res):
        if status != "ok":
            raise RuntimeError(outs)
        for s, evs in zip(c, outs):
            traces.append(evs)
            meta.append(("py", s))
    # C++: same histories, driver built for the decimal unit
    builds = mfcpp.build_all(ctx.work + "/", unit_expr="0.01", extra_defines=["MAXN_LIST(X)=X(1) X(5) X(10) X(30)"])
    keys = sorted({rd["key"] for s in scns for tk in s["ticks"] for rd in tk["rs"]})
    keyidx = {k: i for i, k in enumerate(keys)}
    for (hc, hk), (exe, err) in sorted(builds.items()):
        if exe is None:
            ctx.violation("cpp:build:control=%d,calibration=%d" % (hc, hk), err[-400:], {})
            continue
        sel = [s for s in scns if bool(s["hasControl"]) == bool(hc)]
        rets = mfcpp.run_combo(exe, sel, keyidx)
        for si, s in enumerate(sel, start=1):
            times, evs = [], []
            for ti, tk in enumerate(s["ticks"], start=1):
                if tk["refused"] or (hc and not tk["ctl"]):
                    continue
                n_prev = len(times)
                times += [rd["t"] * unit for rd in tk["rs"]]
                ops = rets.get((si, ti))
                te = mfcheck.travel_events(ops or [], s["t0"] * unit, times, n_prev, tk["out"] * unit, s["max"] * unit) if ops is not None else None
                if te is None:
                    evs.append({"exception": "no / malformed result"})
                    break
                evs += te
            traces.append(evs)
            meta.append(("cpp[%d%d]" % (hc, hk), s))
    clean = [[{k: e[k] for k in ("dir", "steps", "resid_ps")} if "exception" not in e else {"dir": 9, "steps": [], "resid_ps": 10 ** 9} for e in t] for t in traces]
    verdicts, tres = trace.validate("MF_Trace", clean)
    ntrav = 0
    for (side, s), t, v in zip(meta, traces, verdicts):
        ntrav += len(t)
        if v is not None:
            e = t[v]
            back = e.get("dir") == -1
            ctx.violation("%s:decimal-steps:%s" % (side.split("[")[0], "backward" if back else "forward"),
                          "%s max_dt=%s: travel %s -> %s issued steps %s (PlanOK rejects: direction / bound / sum within 1e-9 s)" %
                          (side, s["max"] * unit, e.get("start"), e.get("target"), e.get("dts", e.get("exception"))), {"scenario": s, "travel": e, "unit": unit})
    return {"histories": len(scns), "traces": len(traces), "travels_validated": ntrav, "unit_s": unit, "max_dt_s": [0.01, 0.05, 0.1, 0.3]}


def replay(ctx, path):
    body = json.load(open(path))
    s = body["payload"].get("scenario")
    if s is None:
        print("replay: build failure recorded; re-run the check")
        return 2
    pres = mfcheck.replay_python(ctx, [s])
    print(json.dumps(pres[0], default=str)[:1000])
    return 1 if pres[0]["mismatch"] else 0
