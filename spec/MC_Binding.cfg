INIT Init
NEXT Next
CONSTANTS
  Pool <- cPool
  Strangers <- cStrangers
  ValRing <- cVals
  EmitOn = TRUE
INVARIANT InvStoredByName
INVARIANT InvUnknownRefused
CHECK_DEADLOCK FALSE
