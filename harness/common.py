"""Shared scaffolding of the checks: context, violations, known findings, evidence."""
import hashlib
import json
import os
import shutil
import sys
import tempfile
import time

VERIF = "/verif"
EVID = os.environ.get("VERIF_EVIDENCE_DIR") or os.path.join(VERIF, "evidence")      # scratch directory when evaluating seeded changes
REPLAYS = os.path.join(EVID, "replays")
KNOWN = os.path.join(VERIF, "known_findings.json")


def sha(obj):
    return hashlib.sha256(json.dumps(obj, sort_keys=True, default=str).encode()).hexdigest()[:16]


class Ctx:
    def __init__(self, prop, tier, seed):
        self.prop = prop
        self.tier = tier
        self.seed = seed
        self.t0 = time.time()
        self.work = tempfile.mkdtemp(prefix="verif-%s-" % prop)
        self.violations = []     # dicts: key, detail, replay
        self.known_hits = []
        self.dropped = 0
        self.notes = []
        self.quick = tier == "quick"
        self.cores = os.cpu_count() or 4

    def cleanup(self):
        shutil.rmtree(self.work, ignore_errors=True)

    def log(self, *a):
        print("[%s %6.1fs]" % (self.prop, time.time() - self.t0), *a, file=sys.stderr, flush=True)

    # ---- violations ----------------------------------------------------------
    def violation(self, key, detail, payload):
        """key: stable identification of the failing case (used for known findings)."""
        os.makedirs(REPLAYS, exist_ok=True)
        body = {"property": self.prop, "key": key, "detail": detail, "payload": payload,
                "seed": self.seed, "tier": self.tier, "repo": repo_describe()}
        path = os.path.join(REPLAYS, "%s-%s.json" % (self.prop, sha([key, detail])))
        with open(path, "w") as fh:
            json.dump(body, fh, indent=1, default=str)
        self.violations.append({"key": key, "detail": detail, "replay": path})


def repo_describe():
    import subprocess
    try:
        return subprocess.run(["git", "-C", os.environ.get("VERIF_REPO", "/repo"), "describe", "--always", "--dirty"],
                              capture_output=True, text=True, timeout=20).stdout.strip()
    except Exception:
        return "?"


def load_known():
    if not os.path.exists(KNOWN):
        return {"findings": [], "fixed": []}
    return json.load(open(KNOWN))


def finish(ctx, level, coverage, assumptions):
    """Print verdict lines, write evidence, return the exit code."""
    known = load_known()
    known_keys = {(f["property"], f["key"]): f for f in known.get("findings", [])}
    real = []
    seen_known = {}
    for v in ctx.violations:
        k = (ctx.prop, v["key"])
        if k in known_keys:
            seen_known.setdefault(v["key"], known_keys[k])
        else:
            real.append(v)
    for key, f in seen_known.items():
        print("KNOWN-FINDING: property=%s %s" % (ctx.prop, f.get("what", key)))
    printed = set()
    for v in real:
        if v["key"] in printed:
            continue
        printed.add(v["key"])
        print("VIOLATION property=%s replay=%s" % (ctx.prop, v["replay"]))
        print("  key=%s  %s" % (v["key"], str(v["detail"])[:300]))
    coverage = dict(coverage)
    coverage.setdefault("dropped_scenarios", ctx.dropped)
    coverage.setdefault("known_findings_hit", sorted(seen_known))
    if ctx.notes:
        coverage.setdefault("notes", ctx.notes)
    ev = {"property_id": ctx.prop, "tier": ctx.tier, "seed": ctx.seed, "level": level,
          "coverage": coverage, "assumptions": assumptions,
          "wall_s": round(time.time() - ctx.t0, 2), "violations": len(printed)}
    os.makedirs(EVID, exist_ok=True)
    with open(os.path.join(EVID, "%s.json" % ctx.prop), "w") as fh:
        json.dump(ev, fh, indent=1, default=str)
    if real:
        return 1
    # machinery guard (DESIGN 7b): a run that examined nothing, or dropped more than 20 % of its
    # scenarios, proves nothing and must not look like a pass
    examined = coverage.get("traces_validated_against_impl", coverage.get("programs", coverage.get("evaluations", 1)))
    if not seen_known and (examined == 0 or ctx.dropped > 0.2 * max(1, examined + ctx.dropped)):
        print("MACHINERY-FAILURE property=%s examined=%s dropped=%s" % (ctx.prop, examined, ctx.dropped), file=sys.stderr)
        return 2
    return 0
