"""C05 -- sensor update is the Kalman correction, for any number of readings."""
import copy

import numeric
import scen
from build import named


def rescaled_twin(s, c_log2=22):
    """the same behaviour with the first reading of every multi-reading sensor expressed in units 2^c_log2 times smaller: model,
    reading, innovation and noise scale; the spec (InvRescale, checked exactly by TLC) says state and covariance do not change"""
    t = copy.deepcopy({k: v for k, v in s.items() if not k.startswith("_")})
    d = t["def"]
    C = 2 ** c_log2
    touched = False
    for key, m in named(d["sensors"]).items():
        rs = sorted(m)
        if len(rs) < 2:
            continue
        r0 = rs[0]
        touched = True
        m[r0] = {"op": "mul", "l": {"op": "const", "val": [C, 1]}, "r": m[r0]}
        n = d["snoise"][key][r0]
        d["snoise"][key][r0] = [n[0] * C * C, n[1]]
        for st in t["steps"]:
            if st["act"] == "Update" and st["key"] == key:
                st["z"][r0] = [st["z"][r0][0] * C, st["z"][r0][1]]
                # the recorded innovation / innovation covariance live on the scaled axis (entries up to 2^44 next to exact
                # zeros): they are not compared for the twin -- the claim (InvRescale) is about state and covariance
                st.pop("innov", None)
                st.pop("S", None)
    if not touched:
        return None
    t["_id"] = s.get("_id", "") + "-rescaled"
    return t


def scaled_cov_twin(s, c_log2=-40):
    """the same behaviour with every covariance and every sensor noise 2^c_log2 times as large (variances of ~1e-12): the spec
    (InvScaleCov, checked exactly by TLC with 1/4) says the states stay the same and the covariances scale along"""
    t = copy.deepcopy({k: v for k, v in s.items() if not k.startswith("_")})
    if any(st["act"] not in ("SetEstimate", "Update") for st in t["steps"]) or t["def"]["k"][1] != 0:
        return None          # (predictions add process noise, a gate compares against an absolute threshold: other theorems)
    D = 2 ** (-c_log2)

    def sc(q):
        return [q[0], q[1] * D]
    d = t["def"]
    d["snoise"] = {k: {r: sc(q) for r, q in named(m).items()} for k, m in named(d["snoise"]).items()}
    for st in t["steps"]:
        if "P" in st:
            st["P"] = {r: {c: sc(q) for c, q in named(row).items()} for r, row in named(st["P"]).items()}
        if "S" in st:
            st["S"] = {r: {c: sc(q) for c, q in named(row).items()} for r, row in named(st["S"]).items()}
        st.pop("nis", None)
    t["_id"] = s.get("_id", "") + "-scaled-covariances"
    return t


def _post(ctx, scns, results):
    twins = [t for t in (rescaled_twin(s) for s in scns) if t is not None]
    r = scen.replay_all(ctx, twins, cse_settings=(False,), force_ekf=True)
    c = scen.record_results(ctx, r, key_prefix="rescaled-reading:")
    tiny = [t for t in (scaled_cov_twin(s) for s in scns) if t is not None]
    r2 = scen.replay_all(ctx, tiny, cse_settings=(False,), force_ekf=True)
    c2 = scen.record_results(ctx, r2, key_prefix="scaled-covariances:")
    return {"rescaled_twins": len(twins), "rescaled": c, "scaled_covariance_twins": len(tiny), "scaled_covariances": c2}


REPO_ASSUME = ("thorough tier: every model / filter call the repository's own test-suite executes is recorded (pytest plugin, /repo untouched), "
               "projected against the Jacobian trees Derive.tla derives from the recorded definition, and validated by EKFCalls_Trace.tla")


def run(ctx):
    return numeric.run_numeric(
        ctx, sim=("MC_EKF", "MC_C05_sim.cfg"), sim_num_quick=96, sim_num_thorough=2400, post=_post,
        rule="behaviour = definition + SetEstimate/Update sequence (innovation filtering disabled); state, covariance, recorded "
             "innovation and innovation covariance compared by name with TLC's exact Kalman correction; TLC also checks on every "
             "state: z = h(x) => x' = x, P' symmetric PSD, P - P' PSD, S symmetric PD",
        scope="simulation: 1-3 states, 1-3 sensors of 1-3 readings with unequal per-reading noise, calibration present, rational fragment",
        assumptions=numeric.BASE_ASSUME + [REPO_ASSUME], repo_tests=True)


def replay(ctx, path):
    return numeric.replay_file(ctx, path)
