------------------------------ MODULE CSE_Trace ------------------------------
(***************************************************************************)
(* Translation validation of common-subexpression elimination (C08).       *)
(*                                                                         *)
(* Every trace is ONE straight-line program extracted from the             *)
(* implementation (Python: the hook's post-CSE program; C++: a generated   *)
(* function body), as a single event                                       *)
(*   [def, kind, key, inputs, prefix, outs, points]                        *)
(* The specification computes the ORIGINAL expressions itself, from the    *)
(* definition and `kind` (FilterMath), and accepts the program iff         *)
(*   - it is well formed: every temporary is assigned exactly once, before *)
(*     its first use, from inputs and earlier temporaries only;            *)
(*   - at every evaluation point where the original is defined, running    *)
(*     the program yields exactly the value of the original (exact         *)
(*     rationals; points that leave the arithmetic window are skipped;     *)
(*     programs with elementary functions are checked structurally only).  *)
(***************************************************************************)
EXTENDS FilterMath, Json, IOUtils, TLCExt

Traces == JsonDeserialize(IOEnv.TRACE_FILE)
VARIABLES tid, l
ASSUME \A t \in 1..Len(Traces) : TLCSet(t, 0)

SeqSet(s) == {s[i] : i \in DOMAIN s}
Ev == Traces[tid][l]

\* the original expressions, in the order the implementation's layout (= the library's name order) prescribes
Orig(d, kind, key) ==
  LET so == Ord(SeqSet(d.state))  co == Ord(SeqSet(d.control))  ko == Ord(SeqSet(d.calib)) IN
  CASE kind = "model" -> [i \in 1..Len(so) |-> d.update[so[i]]]
    [] kind = "procjac" -> [i \in 1..(Len(so) * Len(so)) |->
                              Diff(d.update[so[((i - 1) \div Len(so)) + 1]], so[((i - 1) % Len(so)) + 1])]
    [] kind = "ctrljac" -> [i \in 1..(Len(so) * Len(co)) |->
                              Diff(d.update[so[((i - 1) \div Len(co)) + 1]], co[((i - 1) % Len(co)) + 1])]
    [] kind = "sensor" -> LET ro == Ord(DOMAIN d.sensors[key]) IN [i \in 1..Len(ro) |-> d.sensors[key][ro[i]]]
    [] kind = "sensjac_cpp" -> LET ro == Ord(DOMAIN d.sensors[key]) IN
                               [i \in 1..(Len(ro) * Len(so)) |->
                                  Diff(d.sensors[key][ro[((i - 1) \div Len(so)) + 1]], so[((i - 1) % Len(so)) + 1])]
    [] kind = "sensjac_py" -> LET ro == Ord(DOMAIN d.sensors[key])  cols == so \o ko  w == Len(so) + Len(ko) IN
                              [i \in 1..(Len(ro) * w) |->
                                  Diff(d.sensors[key][ro[((i - 1) \div w) + 1]], cols[((i - 1) % w) + 1])]

Prefix(e) == [i \in DOMAIN e.prefix |-> <<e.prefix[i][1], e.prefix[i][2]>>]

ValuesAgree(e, orig) ==
  \A p \in DOMAIN e.points :
    LET env == e.points[p]
        want == [i \in DOMAIN orig |-> Eval(orig[i], env)]
        got  == EvalProg(Prefix(e), e.outs, env) IN
    \A i \in DOMAIN orig :
       (IsRational(orig[i]) /\ ~IsBad(want[i]) /\ ~IsOver(got[i])) => got[i] = want[i]

ProgramOK(e) ==
  LET orig == Orig(e.def, e.kind, e.key) IN
  /\ Len(e.outs) = Len(orig)
  /\ WellFormedSSA(SeqSet(e.inputs), Prefix(e), e.outs)
  /\ ValuesAgree(e, orig)

TInit == tid \in 1..Len(Traces) /\ l = 1
TNext == l <= Len(Traces[tid]) /\ ProgramOK(Ev) /\ l' = l + 1 /\ UNCHANGED tid

Reach == TLCSet(tid, IF TLCGet(tid) < l THEN l ELSE TLCGet(tid))
Post == \A t \in 1..Len(Traces) :
          IF TLCGet(t) = Len(Traces[t]) + 1 THEN PrintT(<<"ACCEPT", t>>)
          ELSE PrintT(<<"REJECT", t, TLCGet(t)>>)
=============================================================================
