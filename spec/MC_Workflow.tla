---- MODULE MC_Workflow ----
EXTENDS Workflow
cRealEdges == {<<1, 2>>, <<2, 3>>}
====
