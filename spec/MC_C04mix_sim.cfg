INIT Init
NEXT Next
CONSTANTS
  Shapes <- cShapesCtl
  SymNames <- cSyms
  NameSeq <- cNoSeq
  SensorNames <- cSensors
  ReadingNames <- cReadings
  Ops <- cOpsMulAdd
  Consts <- cConstsE
  MinGrow = 5
  MaxGrow = 5
  NPoints = 3
  Vals <- cValsInt
  Dts <- cDts2
  CalVals <- cCalVals
  PNoiseVals <- cPNoise
  SNoiseVals <- cSNoise
  Ks <- cKsNone
  PDiag <- cPDiag
  PVec <- cPVec
  ZDeltas <- cZDeltas
  Acts <- cActsPredict
  MinSteps = 6
  MaxSteps = 9
  RationalOnly = TRUE
  Twins = FALSE
  SetOnce = FALSE
  Chain = TRUE
  NeedDt = FALSE
  BindLeaves = FALSE
  EmitOn = TRUE
INVARIANT InvCovValid
INVARIANT InvRescaleControl
INVARIANT InvUpdate
INVARIANT InvReject
INVARIANT InvNisNonNeg
INVARIANT InvSPD
CHECK_DEADLOCK FALSE
