INIT Init
NEXT Next
CONSTANTS
  Times <- cTimes
  MaxDts <- cMaxDts
  Keys <- cKeys
  MaxTicks = 4
  MaxReadings = 3
  MinTicks = 3
  EmitOn = TRUE
INVARIANT InvBounded
INVARIANT InvGhost
INVARIANT InvReport
CHECK_DEADLOCK FALSE
