---- MODULE MC_C14 ----
EXTENDS Definition
X == Sym("x")  V == Sym("v")  A == Sym("a")  Bc == Sym("b")  DT == Sym("dt")
\* B1: the classic constant-acceleration model with a calibrated bias, two sensors
B1 == [state |-> {"x", "v"}, control |-> {"a"}, calib |-> {"b"},
       update |-> ("x" :> Bin("add", X, Bin("mul", V, DT))) @@ ("v" :> Bin("add", V, Bin("mul", Bin("sub", A, Bc), DT))),
       calmap |-> ("b" :> RQ(1, 2)), pnoise |-> ("a" :> RI(2)), ppairs |-> <<>>,
       \* (both sensors have a reading called "r": reading names are per sensor)
       sensors |-> ("s1" :> (("r" :> X) @@ ("q1" :> Bin("add", V, Bc)))) @@ ("alt" :> ("r" :> Pow(X, 2))),
       snoise  |-> ("s1" :> (("r" :> RI(1)) @@ ("q1" :> RI(3)))) @@ ("alt" :> ("r" :> RI(2)))]
\* B2: no control, no calibration, one sensor with one reading
B2 == [state |-> {"p"}, control |-> {}, calib |-> {},
       update |-> ("p" :> Bin("mul", Sym("p"), CI(2))),
       calmap |-> <<>>, pnoise |-> <<>>, ppairs |-> <<>>,
       sensors |-> ("gps" :> ("zz" :> Sym("p"))), snoise |-> ("gps" :> ("zz" :> RI(1)))]
\* B3: two controls, two calibrations, one state, one sensor with two readings
B3 == [state |-> {"Z"}, control |-> {"u", "w"}, calib |-> {"k", "m"},
       update |-> ("Z" :> Bin("add", Sym("Z"), Bin("mul", Bin("add", Bin("mul", Sym("u"), Sym("k")), Sym("w")), DT))),
       calmap |-> ("k" :> RI(2)) @@ ("m" :> RI(-1)), pnoise |-> ("u" :> RI(1)) @@ ("w" :> RI(0)), ppairs |-> <<>>,   \* zero noise for a declared control is valid (only negative is not)
       sensors |-> ("Baro" :> (("Q" :> Bin("mul", Sym("Z"), Sym("m"))) @@ ("r0" :> Sym("Z")))),
       snoise  |-> ("Baro" :> (("Q" :> RI(2)) @@ ("r0" :> RI(1))))]
\* B4: no sensors at all, one control
B4 == [state |-> {"y", "c"}, control |-> {"q"}, calib |-> {},
       update |-> ("y" :> Bin("add", Sym("y"), Sym("q"))) @@ ("c" :> CI(0)),      \* (an update that is identically zero is an update)
       calmap |-> <<>>, pnoise |-> ("q" :> RI(3)), ppairs |-> <<>>, sensors |-> <<>>, snoise |-> <<>>]
cBases == <<B1, B2, B3, B4>>
====
