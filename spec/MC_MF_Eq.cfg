INIT Init
NEXT Next
CONSTANTS
  Times <- cTimes
  MaxDts <- cMaxDts
  Keys <- cKeys
  MaxTicks = 2
  MaxReadings = 2
  MinTicks = 1
  EmitOn = FALSE
VIEW View
INVARIANT InvBounded
INVARIANT InvGhost
INVARIANT InvReport
PROPERTY ActRefused
PROPERTY ActHeldTime
CHECK_DEADLOCK FALSE
