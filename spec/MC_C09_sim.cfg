INIT Init
NEXT Next
CONSTANTS
  Shapes <- cShapes
  SymNames <- cSyms
  NameSeq <- cNoSeq
  SensorNames <- cSensors
  ReadingNames <- cReadings
  Ops <- cOpsRat
  Consts <- cConsts
  MinGrow = 2
  MaxGrow = 5
  NPoints = 2
  Vals <- cValsInt
  Dts <- cDts
  CalVals <- cCalVals
  PNoiseVals <- cPNoise
  SNoiseVals <- cSNoise
  Ks <- cKsNone
  PDiag <- cPDiag0
  PVec <- cPVec
  ZDeltas <- cZDeltas
  Acts <- cActsFilter
  MinSteps = 4
  MaxSteps = 7
  RationalOnly = TRUE
  Twins = FALSE
  SetOnce = TRUE
  Chain = FALSE
  NeedDt = FALSE
  BindLeaves = TRUE
  EmitOn = TRUE
INVARIANT InvCovValid
INVARIANT InvUpdate
INVARIANT InvReject
INVARIANT InvNisNonNeg
INVARIANT InvSPD
CHECK_DEADLOCK FALSE
