"""C18 -- the design workflow follows its declared transitions and selects from the grid."""
import inspect
import json
import traceback

import tlc
import trace
import workers
from common import finish

LEVEL = "model_checking"
ASSUME = ["Workflow.tla: the transition relation is a variable ranging over ALL digraphs on the three state ids; TLC checks the search theorems "
          "(shortest, reaches target, unreachable iff no path) for each and the real `search` is replayed on synthetic state classes realising each digraph",
          "the real relation is extracted from the code (available_transitions + return annotations) and must equal the spec's RealEdges",
          "fit_model events (data sizes, grids, selected and exported hyper-parameters) are validated by TLC against Workflow_Trace.tla"]

IDNAME = {1: "Start", 2: "Symbolic_Model", 3: "Fit_Model"}


def _idmap(sm):
    return {1: sm.StateId.Start, 2: sm.StateId.Symbolic_Model, 3: sm.StateId.Fit_Model}


def extract_relation(mods):
    from formak import ui_state_machine as sm
    idm = {v: k for k, v in _idmap(sm).items()}
    edges = []
    for cls in (sm.DesignManager, sm.SymbolicModelState, sm.FitModelState):
        for name in cls.available_transitions():
            ret = inspect.signature(getattr(cls, name)).return_annotation
            edges.append([idm[cls.state_id()], idm[ret.state_id()], name])
    ids = sorted(idm[m] for m in sm.StateId)
    return {"edges": sorted(edges), "ids": ids}


def search_graphs(mods, graphs):
    """Replay `search` on synthetic state classes realising each digraph.  -> list of mismatch lists"""
    from formak import ui_state_machine as sm
    idmap = _idmap(sm)
    out = []
    for g in graphs:
        edges = [tuple(e) for e in g["edges"]]
        classes = {}
        for i in (1, 2, 3):
            names = ["t_%d_%d" % (a, b) for (a, b) in sorted(edges) if a == i]
            cls = type("S%d" % i, (sm.StateMachineState,), {})
            cls.state_id = classmethod(lambda c, i=i: idmap[i])
            cls.available_transitions = classmethod(lambda c, names=names: list(names))
            classes[i] = cls
        for (a, b) in edges:
            def t(self, _b=b):
                return classes[_b](name=self.name, history=self.history() + [idmap[_b]])
            t.__annotations__ = {"return": classes[b]}
            setattr(classes[a], "t_%d_%d" % (a, b), t)
        mism = []
        for a in (1, 2, 3):
            for b in (1, 2, 3):
                d = g["dist"][a - 1][b - 1]
                inst = classes[a](name="n", history=[idmap[a]])
                try:
                    path = inst.search(idmap[b], debug=False)
                except ValueError:
                    path = None
                except Exception as e:
                    mism.append({"from": a, "to": b, "what": "exception", "observed": repr(e)})
                    continue
                if d == -1:
                    if path is not None:
                        mism.append({"from": a, "to": b, "what": "found-path-to-unreachable", "observed": path})
                    continue
                if path is None:
                    mism.append({"from": a, "to": b, "what": "reachable-not-found", "expected_len": d})
                    continue
                if len(path) != d:
                    mism.append({"from": a, "to": b, "what": "not-shortest", "expected_len": d, "observed": path})
                # following the names, called in order, ends in the requested state
                cur = inst
                ok = True
                for name in path:
                    if name not in cur.available_transitions():
                        ok = False
                        break
                    cur = getattr(cur, name)()
                if not ok or cur.state_id() != idmap[b]:
                    mism.append({"from": a, "to": b, "what": "path-does-not-end-in-target", "observed": path})
            # non-ids are refused
            for bogus in ("Fit_Model", 2, None):
                try:
                    classes[a](name="n", history=[]).search(bogus, debug=False)
                    mism.append({"from": a, "to": repr(bogus), "what": "non-id-accepted"})
                except ValueError:
                    pass
                except Exception as e:
                    mism.append({"from": a, "to": repr(bogus), "what": "non-id-wrong-error", "observed": repr(e)})
        out.append(mism)
    return out


def real_workflow(mods, job):
    """Drive the real workflow: Create, Move, Search and FitModel events for trace validation."""
    import numpy as np
    from formak import ui, python
    from formak import ui_state_machine as sm
    from formak.exceptions import ModelFitError, MinimizationFailure
    idm = {v: k for k, v in _idmap(sm).items()}
    ev = []
    selections = []

    class RecordingGridSearch(sm.GridSearchCV):
        """same search; remembers what it selected"""

        def fit(self, *a, **kw):
            r = super().fit(*a, **kw)
            selections.append(dict(self.best_params_))
            return r
    sm.GridSearchCV = RecordingGridSearch
    dm = sm.DesignManager(name="verif")
    ev.append({"event": "Create", "history": [idm[h] for h in dm.history()]})
    for b in (1, 2, 3):
        try:
            ev.append({"event": "Search", "from": 1, "to": b, "result": len(dm.search(_idmap(sm)[b], debug=False))})
        except ValueError:
            ev.append({"event": "Search", "from": 1, "to": b, "result": "unreachable"})
    dt, x = ui.Symbol("dt"), ui.Symbol("x")
    controls = set()
    model = ui.Model(dt=dt, state={x}, control=controls, state_model={x: x * (1 + dt / 8)})
    h0 = list(dm.history())
    st = dm.symbolic_model(model=model)
    ev.append({"event": "Move", "to": idm[st.state_id()], "history": [idm[h] for h in st.history()]})
    if dm.history() != h0:
        ev.append({"event": "HistoryOfEarlierStateChanged"})
    for b in (1, 2, 3):
        try:
            ev.append({"event": "Search", "from": 2, "to": b, "result": len(st.search(_idmap(sm)[b], debug=False))})
        except ValueError:
            ev.append({"event": "Search", "from": 2, "to": b, "result": "unreachable"})
    defaults = python.Config()
    dflt = {"innovation_filtering": str(defaults.innovation_filtering), "max_dt_sec": str(defaults.max_dt_sec),
            "common_subexpression_elimination": str(defaults.common_subexpression_elimination)}
    rng = np.random.default_rng(job["seed"])
    for n, grid in job["fits"]:
        data = np.round(rng.normal(size=(n, 1)), 3)
        if job.get("outliers") and n >= 4:
            data[1::3] *= 25.0
        space = {"process_noise": [{}], "sensor_models": [{"pos": {"p": x}}], "sensor_noises": [{"pos": {"p": 1.0}}], "calibration_map": [{}]}
        space.update({k: list(v) for k, v in grid.items()})
        e = {"event": "FitModel", "nsamples": n, "grid": {k: [str(v) for v in vs] for k, vs in grid.items()}, "defaults": dflt}
        try:
            h1 = list(st.history())
            fs = st.fit_model(parameter_space=space, data=data)
            cfg = fs.fit_estimator.get_params()["config"]
            exp = fs.export_python().config
            e["outcome"] = "fitted"
            # what the search selected (recorded from GridSearchCV itself), not what the returned estimator happens to carry
            sel = selections[-1] if selections else {}
            e["selected"] = {k: str(sel.get(k, getattr(cfg, k))) for k in grid}
            e["estimator_config"] = {k: str(getattr(cfg, k)) for k in grid}
            e["exported"] = {k: str(getattr(exp, k)) for k in dflt}
            ev.append(e)
            ev.append({"event": "Move", "to": idm[fs.state_id()], "history": [idm[h] for h in fs.history()]})
            if st.history() != h1:
                ev.append({"event": "HistoryOfEarlierStateChanged"})
            for b in (1, 2, 3):
                try:
                    ev.append({"event": "Search", "from": 3, "to": b, "result": len(fs.search(_idmap(sm)[b], debug=False))})
                except ValueError:
                    ev.append({"event": "Search", "from": 3, "to": b, "result": "unreachable"})
            break      # Fit_Model has no transitions: one successful fit per workflow instance
        except ModelFitError:
            e.update(outcome="refused", selected={}, exported={})
            ev.append(e)
        except MinimizationFailure:
            e.update(outcome="minimization-failure", selected={}, exported={})
            ev.append(e)
        except Exception as ex:
            e.update(outcome="exception:" + type(ex).__name__, selected={}, exported={}, detail=repr(ex)[:300] + traceback.format_exc()[-500:])
            ev.append(e)
    return ev


def real_workflow_pair(mods, job):
    """Two workflow instances one after the other IN ONE PROCESS: what an earlier design session selected must not leak into a
    later one (its defaults are the library's defaults, whatever grids were searched before).  -> [trace, trace]"""
    first = real_workflow(mods, job)
    second = real_workflow(mods, {"seed": job["seed"] + 17, "fits": job["then"], "outliers": job.get("outliers")})
    return [first, second]


def run(ctx):
    quick = ctx.quick
    r = tlc.run("MC_Workflow", workers=ctx.cores, timeout=600, coverage=True)
    if r.violation:
        ctx.violation("spec-invariant", r.violation[:800], {})
    graphs = {}
    for s in r.printed:
        graphs.setdefault(json.dumps(sorted(s["edges"])), s)
    graphs = list(graphs.values())
    rr = tlc.run("MC_Workflow", cfg="MC_Workflow_real.cfg", workers=2, timeout=300)
    real_spec = sorted(sorted(s["edges"]) for s in rr.printed)[0]
    # (a) the relation in the code equals the declared relation of the spec
    res = workers.run_tasks([("props.c18", "extract_relation", (), 120)], procs=1)
    status, rel = res[0]
    if status != "ok":
        raise RuntimeError(rel)
    code_edges = sorted([a, b] for a, b, _ in rel["edges"])
    if code_edges != real_spec or rel["ids"] != [1, 2, 3]:
        ctx.violation("declared-transitions", "code declares %s, specification declares %s" % (rel["edges"], real_spec), {"code": rel, "spec": real_spec})
    # (b) search on every digraph over the ids
    chunks = [graphs[i::ctx.cores] for i in range(ctx.cores)]
    chunks = [c for c in chunks if c]
    res = workers.run_tasks([("props.c18", "search_graphs", (c,), 600) for c in chunks], procs=ctx.cores)
    pairs = 0
    for c, (status, outs) in zip(chunks, res):
        if status != "ok":
            raise RuntimeError(outs)
        for g, mism in zip(c, outs):
            pairs += 9
            if mism:
                m = mism[0]
                ctx.violation("search:" + m["what"], "graph %s: from %s to %s: %s" % (g["edges"], m["from"], m["to"], json.dumps(m)[:200]), {"graph": g, "mismatches": mism})
    # (c) the real workflow: moves, histories, searches, fit_model
    jobs = []
    if quick:
        jobs.append({"seed": ctx.seed, "fits": [(0, {}), (2, {"innovation_filtering": [None, 4.0]}), (4, {"innovation_filtering": [None, 4.0]})]})
        jobs.append({"seed": ctx.seed + 1, "fits": [(1, {"max_dt_sec": [0.05]}), (3, {"max_dt_sec": [0.05, 0.2]})]})
        jobs.append({"seed": ctx.seed + 2, "outliers": True, "fits": [(8, {"innovation_filtering": [2.0, None]})]})
        jobs.append({"seed": ctx.seed + 3, "outliers": True, "fits": [(7, {"innovation_filtering": [1.0, None, 6.0]})]})
        # grids that PIN a hyper-parameter to one option (a one-point grid is still a grid: the selection must come from it)
        jobs.append({"seed": ctx.seed + 4, "fits": [(5, {"innovation_filtering": [None], "common_subexpression_elimination": [False]})]})
        jobs.append({"seed": ctx.seed + 5, "fits": [(6, {"innovation_filtering": [None, 3.0], "max_dt_sec": [0.25]})]})
    else:
        grids = [{"innovation_filtering": [None, 4.0, 7.0]}, {"innovation_filtering": [2.0, None]}, {"innovation_filtering": [1.0, 5.0, None]}, {"max_dt_sec": [0.05, 0.2]}, {"common_subexpression_elimination": [True, False]},
                 {"innovation_filtering": [2.0, 6.0], "max_dt_sec": [0.1, 0.3]}, {"innovation_filtering": [None], "common_subexpression_elimination": [False]}]
        k = 0
        for n in (3, 4, 5, 6, 9):
            for g in grids:
                jobs.append({"seed": ctx.seed + k, "fits": [(k % 3, g), (n, g)], "outliers": k % 2 == 1})
                k += 1
    # a second design session in the same process whose grid leaves out what the first one searched over
    jobs.append({"seed": ctx.seed + 40, "fits": [(5, {"innovation_filtering": [2.0, 4.0]})], "then": [(6, {"max_dt_sec": [0.05, 0.2]})]})
    if not quick:
        jobs.append({"seed": ctx.seed + 41, "fits": [(6, {"max_dt_sec": [0.3], "common_subexpression_elimination": [False]})], "then": [(5, {"innovation_filtering": [None, 3.0]})]})
    res = workers.run_tasks([("props.c18", "real_workflow_pair" if "then" in j else "real_workflow", (j,), 1800) for j in jobs], procs=ctx.cores)
    traces = []
    for j, (status, ev) in zip(jobs, res):
        if status != "ok":
            ctx.dropped += 1
            ctx.notes.append(str(ev)[-300:])
            continue
        if "then" in j:
            traces.extend(ev)
        else:
            traces.append(ev)
    verdicts, tres = trace.validate("Workflow_Trace", traces)
    nfit = 0
    for ev, v in zip(traces, verdicts):
        nfit += sum(1 for e in ev if e["event"] == "FitModel")
        if v is not None:
            bad = ev[v]
            ctx.violation("workflow:%s:%s" % (bad["event"], bad.get("outcome", "")), "event %d %s is not a behaviour of Workflow.tla" % (v, json.dumps(bad)[:500]),
                          {"trace": ev, "first_rejected_event": v})
    cov = {"states": r.distinct + (tres.distinct if tres else 0), "transitions": r.states + (tres.states if tres else 0),
           "traces_validated_against_impl": len(traces) + len(graphs), "samples": [traces[0][:6]] if traces else [],
           "evaluations": pairs + sum(len(t) for t in traces), "distinct_nontrivial": len(graphs),
           "digraphs": len(graphs), "search_pairs": pairs, "fit_model_events": nfit,
           "exhaustive": True, "exhaustive_scope": "all 512 digraphs on the three state ids x all 9 (start, target) pairs + non-id targets",
           "rule": "digraph = transition relation realised by synthetic StateMachineState subclasses; real workflow traces with fit_model over data sizes 0..9 and hyper-parameter grids"}
    return finish(ctx, LEVEL, cov, ASSUME)


def replay(ctx, path):
    print("replay: re-run ./check C18")
    return 2
