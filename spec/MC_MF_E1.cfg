INIT Init
NEXT Next
CONSTANTS
  Times <- cTimes
  MaxDts <- cMaxDts
  Keys <- cKeys
  MaxTicks = 1
  MaxReadings = 2
  MinTicks = 1
  EmitOn = TRUE
INVARIANT InvBounded
INVARIANT InvGhost
INVARIANT InvReport
CHECK_DEADLOCK FALSE
