"""C10 -- the managed filter moves through time in bounded, correctly directed steps."""
import json

import mfcheck
from common import finish

LEVEL = "model_checking"
ASSUME = ["dyadic time grid (1 unit = 2^-10 s) makes every float operation of the runtimes exact, so the real step "
          "sequence must equal the specification's plan exactly",
          "C++: recording Impl with exactly the process_model signatures FormaK generates, real ManagedFilter.h, g++ 12 -std=c++20",
          "Python: duck-typed recording filter, real formak.runtime.ManagedFilter"]


def run(ctx):
    scns, stats = mfcheck.generate(ctx, ctx.quick)
    if scns is None:
        ctx.violation("spec-invariant", stats["tlc_violation"][:500], stats)
        return finish(ctx, LEVEL, {"states": 1, "transitions": 1, "traces_validated_against_impl": 0, "samples": [stats]}, ASSUME)
    steps_checked = 0
    # ---- Python ----
    pres = mfcheck.replay_python(ctx, scns)
    for s, o in zip(scns, pres):
        mm = o["mismatch"]
        if not mm:
            steps_checked += o["calls"]
            continue
        if mm["what"] in ("returned-call-sequence", "held-estimate"):
            exp = mm["expected"] if mm["what"] == "returned-call-sequence" else mm["expected"][1]
            obs = mm["observed"] if mm["what"] == "returned-call-sequence" else mm["observed"][1]
            if mfcheck.pproj(exp) != mfcheck.pproj(obs):
                back = any(d < 0 for d in mfcheck.pproj(exp))
                ctx.violation("py:steps:%s" % ("backward" if back else "forward"),
                              "tick %d: expected steps %s, runtime.py issued %s" % (mm["tick"], mfcheck.pproj(exp)[:8], mfcheck.pproj(obs)[:8]),
                              {"scenario": s, "mismatch": mm, "unit_s": mfcheck.UNIT})
        elif mm["what"] == "exception":
            ctx.violation("py:exception", mm["observed"], {"scenario": s, "mismatch": mm})
    # ---- C++ ----
    cres = mfcheck.replay_cpp(ctx, scns)
    for (hc, hk), r in sorted(cres.items()):
        if r["build"] is not None:
            ctx.violation("cpp:build:control=%d,calibration=%d" % (hc, hk),
                          "ManagedFilter<Impl> does not compile for this combination: " + r["build"][-600:],
                          {"combo": [hc, hk], "stderr": r["build"]})
            continue
        for si, s in enumerate(r["scns"], start=1):
            for ti, tk in enumerate(s["ticks"], start=1):
                if tk["refused"] or (hc and not tk["ctl"]):
                    continue
                obs = r["rets"].get((si, ti))
                if obs is None:
                    ctx.violation("cpp:no-output", "no result for tick", {"scenario": s, "tick": ti, "combo": [hc, hk]})
                    break
                exp = mfcheck.expected_ops(tk, r["keyidx"], has_control=bool(hc))
                steps_checked += len(obs)
                if mfcheck.pproj(exp) != mfcheck.pproj(obs):
                    back = any(d < 0 for d in mfcheck.pproj(exp))
                    ctx.violation("cpp:steps:%s" % ("backward" if back else "forward"),
                                  "control=%d calibration=%d tick %d: expected steps %s, ManagedFilter.h issued %s" %
                                  (hc, hk, ti, mfcheck.pproj(exp)[:8], mfcheck.pproj(obs)[:8]),
                                  {"scenario": s, "tick": ti, "combo": [hc, hk], "expected": exp, "observed": obs, "unit_s": mfcheck.UNIT})
                    break
    nontriv = sum(1 for s in scns if any(len(mfcheck.pproj(mfcheck.expected_ops(tk))) >= 2 for tk in s["ticks"]))
    cov = {"states": stats["states"], "transitions": stats["transitions"],
           "traces_validated_against_impl": len(scns) * 3,
           "samples": scns[:1] + scns[-1:],
           "evaluations": steps_checked, "distinct_nontrivial": nontriv,
           "rule": "behaviour = (max_dt, start time, sequence of ticks with readings); non-trivial = some travel needs >= 2 steps; "
                   "each behaviour is replayed into runtime.py and into ManagedFilter.h for both calibration settings",
           "exhaustive": bool(stats.get("exhaustive_replayed_all")),
           "exhaustive_scope": "MC_MF_E1: every single tick from 7 start times x 7 output times x <=2 readings x max_dt in {1,2,3} units; "
                               "PlanTheorem (direction, bound, sum, emptiness) checked by TLC for all from,to in -40..40 and 8 max_dt values",
           "tlc_runs": stats["tlc_runs"]}
    return finish(ctx, LEVEL, cov, ASSUME)


def replay(ctx, path):
    body = json.load(open(path))
    s = body["payload"].get("scenario")
    if s is None:
        print("replay: build failure recorded; re-run the check")
        return 2
    pres = mfcheck.replay_python(ctx, [s])
    print(json.dumps(pres[0], default=str)[:1000])
    return 1 if pres[0]["mismatch"] else 0
