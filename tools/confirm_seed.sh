#!/bin/sh
# usage: confirm_seed.sh <worktree> <seed_out_subdir>   -- confirms in the scratch worktree that
#   (a) the demo passes on the clean tree, (b) fails with the patch, (c) the 42 baseline tests pass with the patch.
wt=$1; sd=$2
cd $wt || exit 2
git checkout -q -- py cpp
demo_cmd=$(/venv/bin/python -c "import json;print(json.load(open('$sd/meta.json'))['demo_cmd'])")
sh -c "$demo_cmd" >/tmp/confirm_clean.$$ 2>&1; rc_clean=$?
git apply $sd/patch.diff || { echo "CONFIRM $sd patch-does-not-apply"; exit 1; }
sh -c "$demo_cmd" >/tmp/confirm_patched.$$ 2>&1; rc_patched=$?
out=$(mktemp /tmp/seedbase.XXXXXX.xml)
env -u FORMAK_VERIF /venv/bin/python -m pytest -q -p no:cacheprovider --timeout=900 --continue-on-collection-errors --junitxml=$out >/dev/null 2>&1
tests=$(/venv/bin/python - "$out" <<'PY'
import json, sys, xml.etree.ElementTree as ET
stable = set(json.load(open('/root/.vp/BASELINE.json'))['stable_pass'])
passed = set()
for tc in ET.parse(sys.argv[1]).iter('testcase'):
    if not any(ch.tag in ('failure', 'error', 'skipped') for ch in tc):
        passed.add(tc.get('classname', '') + '::' + tc.get('name', ''))
print("%d/%d" % (len(stable & passed), len(stable)))
PY
)
rm -f $out
git checkout -q -- py cpp
echo "CONFIRM $sd demo_clean_exit=$rc_clean demo_patched_exit=$rc_patched stable_tests=$tests"
rm -f /tmp/confirm_clean.$$ /tmp/confirm_patched.$$
