"""/verif/check <ID> [--tier quick|thorough] [--replay path]"""
import argparse
import importlib
import os
import sys
import traceback

sys.path.insert(0, os.path.dirname(os.path.abspath(__file__)))
import common  # noqa: E402


def main():
    ap = argparse.ArgumentParser()
    ap.add_argument("prop")
    ap.add_argument("--tier", default=os.environ.get("VERIF_TIER", "quick"), choices=["quick", "thorough"])
    ap.add_argument("--replay", default=None)
    a = ap.parse_args()
    prop = a.prop.upper()
    try:
        seed = int(os.environ.get("VERIF_SEED", "0"))
    except ValueError:
        seed = 0
    try:
        mod = importlib.import_module("props.%s" % prop.lower())
    except ModuleNotFoundError:
        print("no check for %s" % prop, file=sys.stderr)
        return 2
    # the repository hook is only needed by the translation-validation check; everything else runs with the guard off
    if prop not in ("C08",):
        os.environ.pop("FORMAK_VERIF", None)
    ctx = common.Ctx(prop, a.tier, seed)
    try:
        if a.replay:
            return mod.replay(ctx, a.replay)
        return mod.run(ctx)
    except Exception:
        traceback.print_exc()
        print("MACHINERY-FAILURE property=%s" % prop, file=sys.stderr)
        return 2
    finally:
        ctx.cleanup()


if __name__ == "__main__":
    sys.argv[0] = "check"
    sys.exit(main())
