"""C06 -- a reading is discarded iff NIS > k*sqrt(2m)+m; a discard changes nothing."""
import numeric


def run(ctx):
    return numeric.run_numeric(
        ctx, sim=("MC_EKF", "MC_C06_sim.cfg"), sim_num_quick=96, sim_num_thorough=2400,
        rule="behaviour = definition + SetEstimate/Update sequence with editing threshold k in {None, 1/2, 1, 3, 5}; the spec decides "
             "the gate exactly ((nis-m)^2 > 2 m k^2, no square root) and a rejected update must leave state and covariance "
             "bit-identical while the innovation is still recorded",
        scope="simulation: 1-3 sensors of 1-3 readings, reading offsets on both sides of the boundary",
        assumptions=numeric.BASE_ASSUME)


def replay(ctx, path):
    return numeric.replay_file(ctx, path)
