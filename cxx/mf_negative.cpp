// Negative compile tests for C11: "a model with control inputs cannot be ticked without them" (and the
// controlled overloads are not available on an uncontrolled filter).  NEG=0 must compile (positive control);
// every NEG>0 variant must be REJECTED by the compiler.
#include <formak/runtime/ManagedFilter.h>
#include <type_traits>
#include <vector>
struct Est { int n = 0; };
struct CtlT { int c = 0; };
struct Impl;
struct RB { virtual Est sensor_model(const Impl&, const Est&) const = 0; virtual ~RB() = default; };
struct Impl {
  struct Tag {
    using StateAndVarianceT = Est;
    using CalibrationT = std::false_type;
#if HAS_CONTROL
    using ControlT = CtlT;
#else
    using ControlT = std::false_type;
#endif
    using StampedReadingBaseT = RB;
    static constexpr double max_dt_sec = 0.5;
  };
#if HAS_CONTROL
  Est process_model(double, const Est& s, const CtlT&) const { return s; }
#else
  Est process_model(double, const Est& s) const { return s; }
#endif
};
int main() {
  using MF = formak::runtime::ManagedFilter<Impl>;
  MF mf(0.0, Est{});
  std::vector<MF::StampedReading> rs;
#if HAS_CONTROL
#if NEG == 0
  mf.tick(1.0, CtlT{});
  mf.tick(1.0, CtlT{}, rs);
#elif NEG == 1
  mf.tick(1.0);
#elif NEG == 2
  mf.tick(1.0, rs);
#endif
#else
#if NEG == 0
  mf.tick(1.0);
  mf.tick(1.0, rs);
#elif NEG == 1
  mf.tick(1.0, CtlT{});
#elif NEG == 2
  mf.tick(1.0, CtlT{}, rs);
#endif
#endif
  return 0;
}
