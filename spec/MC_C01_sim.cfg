INIT Init
NEXT Next
CONSTANTS
  Shapes <- cShapes
  SymNames <- cSyms
  SensorNames = {}
  ReadingNames = {}
  Ops <- cOps
  Consts <- cConsts
  MinGrow = 4
  MaxGrow = 8
  NPoints = 3
  Vals <- cVals
  Dts <- cDts
  CalVals <- cCalVals
  PNoiseVals <- cOne
  SNoiseVals <- cOne
  Ks <- cKs
  PDiag <- cInts
  PVec <- cInts
  ZDeltas <- cOne
  Acts <- cActs
  MinSteps = 3
  MaxSteps = 3
  RationalOnly = FALSE
  Twins = FALSE
  SetOnce = FALSE
  Chain = FALSE
  NeedDt = FALSE
  BindLeaves = FALSE
  EmitOn = TRUE
  NameSeq <- cNoSeq
CHECK_DEADLOCK FALSE
