INIT TInit
NEXT TNext
CONSTRAINT Reach
POSTCONDITION Post
CHECK_DEADLOCK FALSE
