INIT Init
NEXT Next
CONSTANTS
  Shapes <- cShapesNoSens
  SymNames <- cSyms
  NameSeq <- cNoSeq
  SensorNames <- cSensors
  ReadingNames <- cReadings
  Ops <- cOpsSat
  Consts <- cConsts
  MinGrow = 5
  MaxGrow = 8
  NPoints = 3
  Vals <- cVals
  Dts <- cDts
  CalVals <- cCalVals
  PNoiseVals <- cPNoise
  SNoiseVals <- cSNoise
  Ks <- cKsNone
  PDiag <- cPDiag
  PVec <- cPVec
  ZDeltas <- cZDeltas
  Acts <- cActsModel
  MinSteps = 5
  MaxSteps = 8
  RationalOnly = FALSE
  Twins = FALSE
  SetOnce = FALSE
  Chain = TRUE
  NeedDt = FALSE
  BindLeaves = FALSE
  EmitOn = TRUE
INVARIANT InvCovValid
INVARIANT InvUpdate
INVARIANT InvReject
INVARIANT InvNisNonNeg
INVARIANT InvSPD
CHECK_DEADLOCK FALSE
