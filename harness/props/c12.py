"""C12 -- every generated filter can be driven through the C++ managed runtime."""
import json
import os
import random
import shutil

import cppbuild
import cpprep
import tlc
import workers
from build import Definition, fl
from common import finish

LEVEL = "model_checking"
ASSUME = ["Eigen stand-in + g++ 12 -std=c++20; real ManagedFilter.h; FormaK's own generator renders the filter",
          "tick histories come from ManagedFilter.tla (free monoid); the hand fold applies the spec's call sequence to the SAME generated "
          "filter in the same program and results are compared bit for bit (memcmp)",
          "dyadic time grid (1 unit = 2^-10 s), max_dt_sec in {1,2,3} units rendered into the generated Config"]

UNIT = 2.0 ** -10


def lit(x):
    return float(x).hex()


def driver(d, mf_scns, maxn):
    keys = sorted(d.sensors)
    L = ['#include <formak/gen.h>', '#include <formak/runtime/ManagedFilter.h>', '#include <cstdio>', '#include <cstring>', '#include <cmath>',
         '#include <vector>', 'using namespace gen;', 'using MF = formak::runtime::ManagedFilter<ExtendedKalmanFilter>;',
         'static_assert(MF::compatible, "generated filter must pass the managed runtime compatibility check");',
         'static_assert(MF::runtime_compatible());',
         'static bool same(const StateAndVariance& a, const StateAndVariance& b) {'
         ' return std::memcmp(&a.state.data, &b.state.data, sizeof(a.state.data)) == 0 &&'
         ' std::memcmp(&a.covariance.data, &b.covariance.data, sizeof(a.covariance.data)) == 0; }',
         'static bool finite(const StateAndVariance& a) { bool ok = true;'
         ' for (int i = 0; i < (int)State::rows; ++i) { ok = ok && std::isfinite(a.state.data(i, 0));'
         ' for (int j = 0; j < (int)State::rows; ++j) ok = ok && std::isfinite(a.covariance.data(i, j)); } return ok; }',
         'int main() {']
    has_cal, has_ctl = bool(d.calib), bool(d.control)
    if has_cal:
        L.append('  CalibrationOptions calo;')
        for c in d.calib:
            L.append('  calo.%s = %s;' % (c, lit(fl(d.calmap[c]))))
        L.append('  Calibration cal(calo);')
    L.append('  StateOptions so;')
    for i, n in enumerate(d.state):
        L.append('  so.%s = %s;' % (n, lit((i + 1) / 2.0)))
    L.append('  StateAndVariance init; init.state = State(so);')
    L.append('  ExtendedKalmanFilter hand_impl;')

    def pm_args(dt, est, c):
        a = [dt, est]
        if has_cal:
            a.append("cal")
        if has_ctl:
            a.append("ctl%d" % c)
        return ", ".join(a)

    def sm_args(est, rd):
        a = [est]
        if has_cal:
            a.append("cal")
        a.append(rd)
        return ", ".join(a)

    for k, s in enumerate(mf_scns):
        L.append('  { // scenario %d' % k)
        nt = len(s["ticks"])
        if has_ctl:
            for c in range(1, nt + 1):
                L.append('    ControlOptions uo%d;' % c)
                for j, n in enumerate(d.control):
                    L.append('    uo%d.%s = %s;' % (c, n, lit((c + j) / 4.0)))
                L.append('    Control ctl%d(uo%d);' % (c, c))
        # readings by id
        declared = set()
        for tk in s["ticks"]:
            if tk["refused"]:
                continue
            for r in tk["rs"]:
                if r["id"] in declared:       # the same reading listed twice
                    continue
                declared.add(r["id"])
                key = keys[int(r["key"][1:]) - 1]
                T = key.title()
                L.append('    %sOptions zo%d;' % (T, r["id"]))
                for j, rn in enumerate(sorted(d.sensors[key])):
                    L.append('    zo%d.%s = %s;' % (r["id"], rn, lit((r["id"] * 3 + j) / 4.0 - 1.0)))
                L.append('    %s rd%d(zo%d);' % (T, r["id"], r["id"]))
        L.append('    MF mf(%s, init%s);' % (lit(s["t0"] * UNIT), ", cal" if has_cal else ""))
        for ti, tk in enumerate(s["ticks"], start=1):
            if tk["refused"]:
                continue
            L.append('    { // tick %d' % ti)
            L.append('      std::vector<MF::StampedReading> rs;')
            for r in tk["rs"]:
                # the caller fills ONE scratch reading object, wraps it, and reuses the object for the next reading:
                # wrap() must have taken a copy
                T = keys[int(r["key"][1:]) - 1].title()
                L.append('      { %s scratch = rd%d; rs.push_back(MF::wrap(%s, scratch)); scratch.data = scratch.data * 0.0 + scratch.data * 0.0; }' % (T, r["id"], lit(r["t"] * UNIT)))
            args = [lit(tk["out"] * UNIT)]
            if has_ctl:
                args.append("ctl%d" % ti)
            if tk["rs"] or ti % 2 == 1:
                args.append("rs")
            L.append('      StateAndVariance got = mf.tick(%s);' % ", ".join(args))
            L.append('      StateAndVariance e = init;')
            for op in tk["ret"]:
                if op[0] == "P":
                    c = op[2] if op[2] else ti
                    L.append('      e = hand_impl.process_model(%s);' % pm_args(lit(op[1] * UNIT), "e", c))
                else:
                    L.append('      e = hand_impl.sensor_model(%s);' % sm_args("e", "rd%d" % op[2]))
            L.append('      std::printf("T %d %d %%d %%d\\n", same(got, e) ? 1 : 0, (finite(got) && finite(e)) ? 1 : 0);' % (k, ti))
            L.append('    }')
        L.append('  }')
    L.append('  return 0;')
    L.append('}')
    return "\n".join(L) + "\n"


def gen_task(mods, scn, cse, outdir, maxn, mf_scns):
    d = Definition(scn["def"])
    try:
        cpprep.render(mods, d, cse, outdir, kind="ekf", max_dt=maxn * UNIT)
    except Exception as e:
        import traceback
        return {"ok": False, "error": repr(e)[:400], "tb": traceback.format_exc()[-1200:]}
    with open(os.path.join(outdir, "driver.cpp"), "w") as fh:
        fh.write(driver(d, mf_scns, maxn))
    return {"ok": True}


def run(ctx):
    quick = ctx.quick
    rnd = random.Random(ctx.seed)
    r = tlc.run("MC_EKF", cfg="MC_C12_sim.cfg", mode="sim", workers=8, num=(40 if quick else 120), depth=90, seed=ctx.seed + 1, timeout=600)
    if r.violation:
        ctx.violation("spec-invariant", r.violation[:500], {})
    states = r.states
    defs = r.printed
    # tick histories per number of sensors
    mf = {}
    for n in range(4):
        rr = tlc.run("MC_MF_c12_%d" % n, mode="sim", workers=2, num=(150 if quick else 1500), depth=40, seed=ctx.seed + 2, timeout=600)
        if rr.violation:
            ctx.violation("spec-invariant", rr.violation[:500], {})
        states += rr.states
        mf[n] = rr.printed
    # pick definitions per (control, calibration, #sensors) combination
    per_combo = 1 if quick else 6
    chosen = {}
    for s in defs:
        d = Definition(s["def"])
        k = (bool(d.control), bool(d.calib), len(d.sensors))
        if quick and k[2] not in (0, 2, 3):
            continue
        chosen.setdefault(k, [])
        if len(chosen[k]) < per_combo:
            chosen[k].append(s)
    if quick:
        # 8 corner configurations: each control x calibration with 0 sensors and with the largest sensor count drawn
        sel = {}
        for (hc, hk, ns), v in chosen.items():
            if ns == 0:
                sel[(hc, hk, 0)] = v
            else:
                cur = [k for k in sel if k[0] == hc and k[1] == hk and k[2] > 0]
                if not cur or cur[0][2] < ns:
                    for c in cur:
                        del sel[c]
                    sel[(hc, hk, ns)] = v
        chosen = sel
    jobs = []
    idx = 0
    for k, lst in sorted(chosen.items()):
        for s in lst:
            d = Definition(s["def"])
            maxn = 1 + (idx % 3)
            pool = [m for m in mf[len(d.sensors)] if m["max"] == maxn and bool(m["hasControl"]) == bool(d.control)
                    and any(not t["refused"] for t in m["ticks"])]
            rnd.shuffle(pool)
            pick = pool[: (6 if quick else 20)]
            outdir = os.path.join(ctx.work, "c12_%d" % idx)
            os.makedirs(outdir, exist_ok=True)
            jobs.append({"scn": s, "combo": k, "maxn": maxn, "mf": pick, "dir": outdir, "cse": bool(idx % 2)})
            idx += 1
    ctx.log("%d generated filters (%d configurations) x ManagedFilter" % (len(jobs), len(chosen)))
    gen = workers.run_tasks([("props.c12", "gen_task", ({k: v for k, v in j["scn"].items() if not k.startswith("_")}, j["cse"], j["dir"], j["maxn"], j["mf"]), 180)
                             for j in jobs], procs=ctx.cores)
    build = []
    for j, (status, g) in zip(jobs, gen):
        if status != "ok":
            ctx.dropped += 1
            ctx.notes.append("generation %s: %s" % (status, str(g)[-200:]))
            continue
        if not g["ok"]:
            ctx.violation("generate-failed:%s" % (j["combo"],), g["error"], {"scenario": j["scn"], "tb": g.get("tb")})
            continue
        build.append(j)
    comp = cppbuild.compile_many([{"sources": [os.path.join(j["dir"], "driver.cpp"), os.path.join(j["dir"], "generated/formak/gen.cpp")],
                                   "out": os.path.join(j["dir"], "drv"), "includes": [os.path.join(j["dir"], "generated")]} for j in build],
                                 parallel=ctx.cores)
    ticks = 0
    ok_filters = 0
    combos_ok = {}
    for j, (ok, err) in zip(build, comp):
        payload = {"scenario": {k: v for k, v in j["scn"].items() if not k.startswith("_")}, "combo": j["combo"], "max": j["maxn"], "mf": j["mf"][:3]}
        if ok is None:
            ctx.dropped += 1
            continue
        if not ok:
            # blame: does a minimal instantiation (no harness-written tick code) build?
            probe = os.path.join(j["dir"], "probe.cpp")
            with open(probe, "w") as fh:
                fh.write(driver(Definition(j["scn"]["def"]), [], j["maxn"]))
            okp, errp = cppbuild.compile_one({"sources": [probe, os.path.join(j["dir"], "generated/formak/gen.cpp")],
                                              "out": os.path.join(j["dir"], "probe"), "includes": [os.path.join(j["dir"], "generated")]})
            if okp and "formak/runtime/ManagedFilter.h" not in err and "generated/formak" not in err.replace("driver.cpp", ""):
                raise RuntimeError("harness driver does not compile: " + err[-1500:])
            ctx.violation("instantiate-failed:control=%s,calibration=%s" % (j["combo"][0], j["combo"][1]),
                          "ManagedFilter<generated EKF> does not build (%d sensors): %s" % (j["combo"][2], err[-700:]), dict(payload, stderr=err))
            continue
        rc, so, se = cppbuild.run_exe(os.path.join(j["dir"], "drv"), timeout=120)
        if rc != 0:
            ctx.violation("run-failed", "exit %d %s" % (rc, se[-300:]), payload)
            continue
        bad = None
        for line in so.splitlines():
            t = line.split()
            if t and t[0] == "T":
                ticks += 1
                if t[3] == "0" and t[4] == "1":
                    bad = bad or (int(t[1]), int(t[2]))
        if bad:
            ctx.violation("tick-differs-from-hand-fold:control=%s,calibration=%s" % (j["combo"][0], j["combo"][1]),
                          "scenario %d tick %d: mf.tick(...) != folding process_model/sensor_model by hand in the spec's order" % bad,
                          dict(payload, failing=j["mf"][bad[0]]))
        else:
            ok_filters += 1
            combos_ok[str(j["combo"])] = combos_ok.get(str(j["combo"]), 0) + 1
        shutil.rmtree(j["dir"], ignore_errors=True)
    cov = {"states": states, "transitions": states, "traces_validated_against_impl": sum(len(j["mf"]) for j in build),
           "samples": [{"combo": str(j["combo"]), "max": j["maxn"], "history": j["mf"][0] if j["mf"] else None} for j in build[:2]],
           "evaluations": ticks, "distinct_nontrivial": len(build), "filters_ok": ok_filters, "configurations": combos_ok,
           "rule": "case = (generated filter for a TLC-drawn definition, tick history from ManagedFilter.tla); every (control, calibration, #sensors) "
                   "combination drawn is built; non-trivial = every build (each is a distinct generated filter driven through ManagedFilter)",
           "exhaustive": False}
    return finish(ctx, LEVEL, cov, ASSUME)


def replay(ctx, path):
    print("replay: re-run ./check C12 (builds are regenerated from /repo)")
    return 2
