------------------------------- MODULE MF_Trace -------------------------------
(***************************************************************************)
(* C10 on times that are NOT exactly representable (decimal grid): each    *)
(* trace is the list of travels one managed filter performed; a travel     *)
(* event carries, computed exactly (Fractions of the recorded doubles) by  *)
(* the projection and scaled to picoseconds:                               *)
(*    dir       sign of (target - start)                                   *)
(*    steps     sequence of [sgn, excess_ps]  (excess over max_dt_sec)     *)
(*    resid_ps  | sum of steps - (target - start) |                        *)
(*    tiny      |target - start| < 1e-9 s                                  *)
(* PlanOK is the property's own statement with its own 1e-9 s slack.       *)
(***************************************************************************)
EXTENDS Integers, Sequences, TLC, Json, IOUtils, TLCExt
Traces == JsonDeserialize(IOEnv.TRACE_FILE)
VARIABLES tid, l
ASSUME \A t \in 1..Len(Traces) : TLCSet(t, 0)
Ev == Traces[tid][l]
Slack == 1000      \* 1e-9 s in picoseconds

PlanOK(e) ==
  /\ \A i \in DOMAIN e.steps : e.steps[i].sgn = e.dir /\ e.steps[i].excess_ps <= Slack   \* directed, bounded
  /\ e.resid_ps <= Slack                                                                  \* lengths sum to the difference
  /\ (e.dir = 0 => e.steps = <<>>)                                                        \* no step when the times coincide

TInit == tid \in 1..Len(Traces) /\ l = 1
TNext == l <= Len(Traces[tid]) /\ PlanOK(Ev) /\ l' = l + 1 /\ UNCHANGED tid
Reach == TLCSet(tid, IF TLCGet(tid) < l THEN l ELSE TLCGet(tid))
Post == \A t \in 1..Len(Traces) :
          IF TLCGet(t) = Len(Traces[t]) + 1 THEN PrintT(<<"ACCEPT", t>>)
          ELSE PrintT(<<"REJECT", t, TLCGet(t)>>)
=============================================================================
