---- MODULE MC_MF_sim ----
EXTENDS ManagedFilter
cTimes == -40..40
cMaxDts == {1, 2, 3, 5, 7, 9, 16, 64}
cKeys == {"k1", "K0", "z"}
====
