------------------------------- MODULE Linalg -------------------------------
(***************************************************************************)
(* Small dense matrices over Rational: a matrix is a sequence of rows,     *)
(* each a sequence of rationals.  An r x 0 matrix is a sequence of r empty *)
(* rows; a 0 x c matrix is <<>> (products with it are handled by MatMulD,  *)
(* which takes the inner/outer dimensions explicitly).                     *)
(* MInv / determinant / PSD for sizes 1..3 (closed forms, exact).       *)
(***************************************************************************)
EXTENDS Rational, TLC

\* TLC evaluates [i \in S |-> e] lazily (e is re-evaluated at every application), so nested matrix
\* products would be recomputed exponentially often.  TLCEval forces and caches a value; MkMat / MkVec
\* build fully evaluated matrices / vectors.
MkVec(n, F(_))       == TLCEval([i \in 1..n |-> F(i)])
MkMat(r, c, F(_, _)) == TLCEval([i \in 1..r |-> TLCEval([j \in 1..c |-> F(i, j)])])

Rows(A) == Len(A)
Cols(A) == IF Len(A) = 0 THEN 0 ELSE Len(A[1])

RECURSIVE SumTo(_, _)
\* sum_{k=1..n} f[k]   (f a sequence of rationals)
SumTo(f, n) == IF n = 0 THEN Zero ELSE RAdd(SumTo(f, n - 1), f[n])

ZeroMat(r, c) == MkMat(r, c, LAMBDA i, j : Zero)
Ident(n)      == MkMat(n, n, LAMBDA i, j : IF i = j THEN One ELSE Zero)
Diag(v)       == MkMat(Len(v), Len(v), LAMBDA i, j : IF i = j THEN v[i] ELSE Zero)

\* A is r x k, B is k x c (dimensions explicit so that k = 0 or c = 0 work)
MatMulD(A, B, r, k, c) ==
  MkMat(r, c, LAMBDA i, j : SumTo([t \in 1..k |-> RMul(A[i][t], B[t][j])], k))

MatMul(A, B) == MatMulD(A, B, Rows(A), Cols(A), Cols(B))
TrD(A, r, c) == MkMat(c, r, LAMBDA j, i : A[i][j])
Tr(A)        == TrD(A, Rows(A), Cols(A))
MAdd(A, B)   == MkMat(Rows(A), Cols(A), LAMBDA i, j : RAdd(A[i][j], B[i][j]))
MSub(A, B)   == MkMat(Rows(A), Cols(A), LAMBDA i, j : RSub(A[i][j], B[i][j]))
MatVec(A, v) == MkVec(Rows(A), LAMBDA i : SumTo([t \in 1..Len(v) |-> RMul(A[i][t], v[t])], Len(v)))
VAdd(a, b)   == MkVec(Len(a), LAMBDA i : RAdd(a[i], b[i]))
VSub(a, b)   == MkVec(Len(a), LAMBDA i : RSub(a[i], b[i]))
Dot(a, b)    == SumTo([t \in 1..Len(a) |-> RMul(a[t], b[t])], Len(a))

MatBad(A)  == \E i \in 1..Rows(A) : \E j \in 1..Cols(A) : IsBad(A[i][j])
MatOver(A) == \E i \in 1..Rows(A) : \E j \in 1..Cols(A) : IsOver(A[i][j])
VecBad(v)  == \E i \in 1..Len(v) : IsBad(v[i])
MatFits(A) == \A i \in 1..Rows(A) : \A j \in 1..Cols(A) : Fits(A[i][j])
VecFits(v) == \A i \in 1..Len(v) : Fits(v[i])

Symmetric(A) == \A i \in 1..Rows(A) : \A j \in 1..Rows(A) : A[i][j] = A[j][i]

Det2(a, b, c, d) == RSub(RMul(a, d), RMul(b, c))

\* sub-matrix of A on the given row / column index sequences
SubMat(A, rs, cs) == MkMat(Len(rs), Len(cs), LAMBDA i, j : A[rs[i]][cs[j]])
\* 1..n without k, as a sequence
Without(n, k) == [i \in 1..(n - 1) |-> IF i < k THEN i ELSE i + 1]

\* determinant by Laplace expansion along the first row (sizes 0..4 are used)
RECURSIVE Det(_)
Det(A) ==
  LET n == Rows(A) IN
  CASE n = 0 -> One
    [] n = 1 -> A[1][1]
    [] n = 2 -> Det2(A[1][1], A[1][2], A[2][1], A[2][2])
    [] OTHER ->
         LET term(j) == LET m == Det(SubMat(A, Without(n, 1), Without(n, j)))
                            t == RMul(A[1][j], m)
                        IN IF j % 2 = 1 THEN t ELSE RNeg(t)
         IN SumTo([j \in 1..n |-> term(j)], n)

\* minor: delete row i, column j
Minor(A, i, j) == Det(SubMat(A, Without(Rows(A), i), Without(Rows(A), j)))
Sub3(A, i, j) == Minor(A, i, j)

\* inverse by adjugate; Undef entries if singular
MInv(A) ==
  LET d == TLCEval(Det(A)) n == Rows(A) IN
  IF n = 1 THEN << <<RDiv(One, d)>> >>
  ELSE \* (adj A)[i][j] = (-1)^(i+j) * minor(j, i)
       MkMat(n, n, LAMBDA i, j : RDiv(IF (i + j) % 2 = 0 THEN Minor(A, j, i) ELSE RNeg(Minor(A, j, i)), d))

\* increasing index sequences = principal sub-matrices
RECURSIVE IncSeqs(_, _)
IncSeqs(n, k) == IF k = 0 THEN {<<>>}
                 ELSE {Append(s, m) : s \in IncSeqs(n, k - 1), m \in 1..n} \cap
                      {s \in UNION {[1..k -> 1..n]} : \A a \in 1..(k - 1) : s[a] < s[a + 1]}
PrincipalSets(n) == UNION {IncSeqs(n, k) : k \in 1..n}

\* positive semi-definite (symmetric A): all principal minors >= 0
PSD(A) == \A s \in PrincipalSets(Rows(A)) : RSign(Det(SubMat(A, s, s))) >= 0

\* positive definite: leading principal minors > 0
PD(A) == \A k \in 1..Rows(A) : RSign(Det(SubMat(A, [i \in 1..k |-> i], [i \in 1..k |-> i]))) > 0

\* v' M v
Quad(v, M) == Dot(v, MatVec(M, v))
=============================================================================
