------------------------------- MODULE MF_Trace -------------------------------
(***************************************************************************)
(* C10 on times that are NOT exactly representable (decimal grid): each    *)
(* trace is the list of travels one managed filter performed; a travel     *)
(* event carries, computed exactly (Fractions of the recorded doubles) by  *)
(* the projection and scaled to picoseconds:                               *)
(*    dir       sign of (target - start)                                   *)
(*    nsteps    number of prediction steps issued                          *)
(*    nwrong    number of steps whose sign differs from dir                *)
(*    max_excess_ps   largest excess of a step length over max_dt_sec      *)
(*    resid_ps  | sum of steps - (target - start) |                        *)
(*    tiny      |target - start| < 1e-9 s                                  *)
(* PlanOK is the property's own statement with its own 1e-9 s slack.       *)
(***************************************************************************)
EXTENDS Integers, Sequences, TLC, Json, IOUtils, TLCExt
Traces == JsonDeserialize(IOEnv.TRACE_FILE)
VARIABLES tid, l
ASSUME \A t \in 1..Len(Traces) : TLCSet(t, 0)
Ev == Traces[tid][l]
Slack == 1000      \* 1e-9 s in picoseconds

PlanOK(e) ==
  /\ e.nwrong = 0 /\ e.max_excess_ps <= Slack      \* every step points in the direction of travel and is bounded
  /\ e.resid_ps <= Slack                           \* the lengths sum to the time difference
  /\ (e.dir = 0 => e.nsteps = 0)                   \* no step when the two times coincide

TInit == tid \in 1..Len(Traces) /\ l = 1
TNext == l <= Len(Traces[tid]) /\ PlanOK(Ev) /\ l' = l + 1 /\ UNCHANGED tid
Reach == TLCSet(tid, IF TLCGet(tid) < l THEN l ELSE TLCGet(tid))
Post == \A t \in 1..Len(Traces) :
          IF TLCGet(t) = Len(Traces[t]) + 1 THEN PrintT(<<"ACCEPT", t>>)
          ELSE PrintT(<<"REJECT", t, TLCGet(t)>>)
=============================================================================
