// Drives the REAL cpp/include/formak/innovation_filtering.h helper removeInnovation<m> (C06).
// stdin: lines  "<m> <k hexfloat> <y_1..y_m hexfloat> <Sinv row-major m*m hexfloat>"   stdout: "D <line#> <0|1>"
#include <formak/innovation_filtering.h>
#include <cstdio>
#include <cstdlib>
#include <string>
#include <vector>

template <int M>
static int decide(double k, const std::vector<double>& v) {
  Eigen::Matrix<double, M, 1> y;
  Eigen::Matrix<double, M, M> s;
  for (int i = 0; i < M; ++i) y(i, 0) = v[i];
  for (int i = 0; i < M; ++i)
    for (int j = 0; j < M; ++j) s(i, j) = v[M + i * M + j];
  return formak::innovation_filtering::edit::removeInnovation<M>(k, y, s) ? 1 : 0;
}

int main() {
  int m;
  int line = 0;
  while (std::scanf("%d", &m) == 1) {
    char buf[64];
    if (std::scanf("%63s", buf) != 1) return 3;
    double k = std::strtod(buf, nullptr);
    std::vector<double> v(m + m * m);
    for (auto& x : v) {
      if (std::scanf("%63s", buf) != 1) return 3;
      x = std::strtod(buf, nullptr);
    }
    ++line;
    int d = -1;
    switch (m) {
      case 1: d = decide<1>(k, v); break;
      case 2: d = decide<2>(k, v); break;
      case 3: d = decide<3>(k, v); break;
      case 4: d = decide<4>(k, v); break;
      case 5: d = decide<5>(k, v); break;
      case 7: d = decide<7>(k, v); break;
      case 8: d = decide<8>(k, v); break;
      default: return 4;
    }
    std::printf("D %d %d\n", line, d);
  }
  return 0;
}
