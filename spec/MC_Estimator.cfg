INIT Init
NEXT Next
CONSTANTS
  Universes <- cUniverses
  ModelToks = {"M1", "M2"}
  SModelToks = {"S1"}
  CalToks = {"C1"}
  PNoiseToks = {"pnA", "pnB"}
  AltModelToks = {"M3"}
  AltPNoiseToks = {"pnC"}
  SNoiseToks = {"snA", "snB"}
  ConfigVals <- cConfigVals
  BogusKeys = {"bogus", "max_dt", "processnoise"}
  MaxCmds = 8
  MaxFits = 2
  EmitOn = TRUE
INVARIANT InvNoiseKeys
INVARIANT InvNoiseSane
PROPERTY ActFrame
PROPERTY ActConfigFrame
CHECK_DEADLOCK FALSE
