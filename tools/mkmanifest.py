#!/usr/bin/env python3
"""Regenerate /verif/MANIFEST.json from the table below (keeps it schema-valid at all times)."""
import json
import subprocess

PROPS = [json.loads(l)["id"] for l in open("/verif/properties.jsonl")]

CHECKS = {
    "C01": dict(
        category="model_checking",
        text="TLC enumerates model definitions (exhaustively for <=1 grown node over 19 operators incl. elementary, inverse-trigonometric and a "
             "user function supplied through Config.python_modules; by simulation up to 8 grown nodes / 3 states / 2 controls / 2 calibrations, "
             "look-alike names, dt positive, zero and negative) with the exact rational value of every update expression; every behaviour is written "
             "down in its own random presentation (declaration order, container, proactive_simplify) and replayed into python.compile(...).model "
             "with CSE off and on; results handed out earlier are re-read at the end of the behaviour. Thorough tier: every model / filter call the repository's own test-suite executes is recorded (pytest plugin, /repo untouched), projected against the Jacobian trees Derive.tla derives from the recorded definition and validated by EKFCalls_Trace.tla. One State object that is overwritten in place between evaluations is evaluated before a fresh object with the same values. A further family grows expressions from + * and a user-supplied function by chaining, so that the user function sits inside shared sub-terms.",
        design_ref="DESIGN.md section 4 C01",
        note="Trusted: TLC + Rational.tla exact arithmetic; the 30-line reference interpreter for elementary "
             "functions (cross-checked against TLC on the rational fragment on every run); tolerance 1e-9 relative.",
        technique="TLA+ spec (Formak.tla) + TLC exhaustive/simulation; spec->code replay of behaviours into the Python model",
    ),
    "C10": dict(
        category="model_checking",
        text="ManagedFilter.tla models the runtime over the free monoid of filter calls on an integer time grid; TLC proves the plan theorem for "
             "all from/to in -40..40 and 8 max_dt values and checks the tick invariants exhaustively; every single tick of the small grid and "
             "simulated histories are replayed into runtime.py and ManagedFilter.h (4 tag combinations, also shifted by 2^20 s) on a dyadic grid "
             "where the issued steps must equal the plan exactly; on decimal times (max_dt 0.01-0.3 s), on single moves of up to 144 000 "
             "sub-steps and on moves within 1e-10..1e-8 s of a whole number of large steps, recorded travels are validated by TLC against "
             "PlanOK (MF_Trace.tla); thorough tier: the repository's own runtime tests under a recording plugin. Moves of 1e-10..2e-9 s in both directions are included.",
        design_ref="DESIGN.md section 4 C10",
        note="Trusted: recording stand-in filters; g++ 12; the dyadic grid argument (all float time arithmetic exact). "
             "Decimal (non-representable) step sizes are covered by the trace-validation part (PlanOK).",
        technique="TLA+ spec (ManagedFilter.tla) + TLC exhaustive/simulation; spec->code replay into Python and C++ runtimes",
    ),
    "C11": dict(
        category="model_checking",
        text="Same specification: Tick folds readings in the order given, holds at the last reading, reports without holding; TLC checks "
             "exhaustively that reading-less ticks never influence later returns (ghost run), that refused ticks change nothing and that the held "
             "time only moves to reading timestamps; behaviours are replayed into both runtimes (complete call sequences with the control each "
             "step was given); statically refused calls are negative compile tests; a second family ticks REAL compiled non-linear Python "
             "filters and compares with the hand fold in the order the spec gives. The caller may list the same reading object twice (RepeatReading): it is folded twice, at its places.",
        design_ref="DESIGN.md section 4 C11",
        note="Trusted: recording stand-in filters (free monoid), g++ 12 as the judge of the negative compile tests.",
        technique="TLA+ spec (ManagedFilter.tla) + TLC; spec->code replay of tick histories into Python and C++ runtimes",
    ),
    "C03": dict(
        category="model_checking",
        text="TLC generates definitions with rectangular sensor sets (readings != states, calibration present) and computes every "
             "Jacobian entry as Eval(Diff(tree, column)) keyed by (row name, column name); behaviours are replayed into "
             "process_jacobian / control_jacobian / sensor_jacobian of the real filter with CSE off and on. A second configuration always has two calibration terms and chained binary growth, so that sensor expressions mix states and both calibrations; the failing input of known finding F1 is replayed on every run.",
        design_ref="DESIGN.md section 4 C03",
        note="Trusted: Diff/Eval in Expr.tla (exact), reference interpreter applied to the spec's derivative TREE for elementary functions.",
        technique="TLA+ spec (Formak.tla JacEval/SensEval) + TLC simulation; spec->code replay into the Python EKF",
    ),
    "C04": dict(
        category="model_checking",
        text="TLC computes x' = f(x,u) and P' = G P G^T + V M V^T exactly (M assembled by control NAME with distinct noises) along histories of "
             "6-9 SetEstimate/Predict calls on ONE filter object that repeat dt values (incl. dt = 0), checks symmetry/PSD of every covariance as "
             "an invariant, and the behaviours are replayed into process_model (inputs unmodified, repeat call identical). Thorough tier: every model / filter call the repository's own test-suite executes is recorded (pytest plugin, /repo untouched), projected against the Jacobian trees Derive.tla derives from the recorded definition and validated by EKFCalls_Trace.tla. TLC also checks that measuring a control in other units changes nothing (InvRescaleControl); every behaviour with a control is replayed a second time with that control in units 2^20 times larger (noise variance ~1e-12). A further family has two controls and products only (the control Jacobian depends on state and control); its prediction histories -- one filter object, repeating dt, changing state and control -- are replayed into the generated C++ as well.",
        design_ref="DESIGN.md section 4 C04",
        note="Trusted: exact rational linear algebra (Linalg.tla); rational fragment only; SPD integer covariances.",
        technique="TLA+ spec (Formak.tla Predict) + TLC simulation with invariants; spec->code replay into the Python EKF",
    ),
    "C05": dict(
        category="model_checking",
        text="TLC computes the Kalman correction exactly for sensors with 1-4 readings of unequal noise and checks on every state the stated "
             "consequences (z = h(x) leaves x unchanged, P' symmetric PSD, P - P' PSD, S symmetric PD) and the rescaling theorem InvRescale "
             "(one reading measured in other units changes nothing); behaviours are replayed into sensor_model (state, covariance, recorded "
             "innovation, S, by name), and so are their rescaled twins with factor 2^22 (eigenvalues of S spread over 13 decades). Thorough tier: every model / filter call the repository's own test-suite executes is recorded (pytest plugin, /repo untouched), projected against the Jacobian trees Derive.tla derives from the recorded definition and validated by EKFCalls_Trace.tla. TLC also checks that only the ratio of prior covariance and sensor noise matters (InvScaleCov); every update-only behaviour is replayed again with all covariances and noises scaled by 2^-40. Half of the replays build a second filter from a different definition with the same names after the filter under test.",
        design_ref="DESIGN.md section 4 C05",
        note="Trusted: exact rational linear algebra incl. adjugate inverse (sizes 1-3); det S >= 1 conditioning window.",
        technique="TLA+ spec (Formak.tla UpdateAccept) + TLC simulation with invariants; spec->code replay into the Python EKF",
    ),
    "C06": dict(
        category="model_checking",
        text="The gate is decided exactly in the spec ((nis-m)^2 > 2 m k^2 with nis-m > 0, no square root); UpdateReject leaves the estimate "
             "unchanged and is never enabled with filtering disabled. Behaviours with thresholds k in {None, 1/256, 1/2, 1, 2.576, 3, 5} are "
             "replayed into the Python filter (bit-identical estimate on discard, from a prior that is symmetric only up to rounding) and into "
             "the generated C++ filter for every threshold; GateCases.tla enumerates exact cases incl. the boundary for m = 1,2,3,8 against "
             "remove_innovation and the real removeInnovation<m>; a +-6 ulp band around fl(k sqrt(2m)+m) for m = 1,2,3,5,7 is trace-validated. Thorough tier: every model / filter call the repository's own test-suite executes is recorded (pytest plugin, /repo untouched), projected against the Jacobian trees Derive.tla derives from the recorded definition and validated by EKFCalls_Trace.tla. Every exact-boundary case of GateCases.tla and its neighbours also run through whole filters: Python sensor_model and the generated C++ sensor update (m = 2 and 8, P = Q = S/2).",
        design_ref="DESIGN.md section 4 C06",
        note="Trusted: exact rational arithmetic; ulp-level boundary agreement between implementations is the trace part (DESIGN 4 C06 d).",
        technique="TLA+ spec (Formak.tla UpdateAccept/UpdateReject + Gate) + TLC; spec->code replay into Python (and C++) filters",
    ),
    "C02": dict(
        category="model_checking",
        text="Formak.tla behaviours (all control x calibration combinations, 0-4 sensors of 1-4 readings, elementary functions, a linear-in-dt "
             "family with several dt per process, look-alike names, magnitudes given as float / int / Rational / Fraction) are rendered by FormaK's "
             "C++ generator with CSE off and on, compiled with g++ and model / process_jacobian / control_jacobian / covariance / "
             "SensorModel::{model,jacobian,covariance} compared entry by entry, by name, with the spec's exact values; published C++ layouts must "
             "equal the spec's name order; a generated file that does not compile is itself a violation. A third family has controls and calibrations always present and grows expressions by chaining binary operators (mixed-symbol expressions); every other replay goes through the public entry points cpp.compile / cpp.compile_ekf (configuration as dict or Config object) and the compiled-in configuration constants are compared bit for bit.",
        design_ref="DESIGN.md section 4 C02",
        note="Trusted: Eigen stand-in (no Eigen in the sandbox), g++ 12 -std=c++20, name<->index maps probed from the generated accessors.",
        technique="TLA+ spec (Formak.tla) + TLC simulation; spec->code replay into generated, compiled C++",
    ),
    "C07": dict(
        category="model_checking",
        text="One Formak.tla behaviour (SetEstimate / Predict / accepted and rejected Updates / evaluations) is replayed into the Python filter and "
             "into the generated C++ filter; both are compared with the spec after every step and with each other. A second family replays "
             "seeded 40-call float histories recorded exactly from ONE Python filter object into the generated C++ (differential, no spec oracle).",
        design_ref="DESIGN.md section 4 C07",
        note="Trusted: Eigen stand-in, g++ 12; exact rational oracle; 1e-9 relative tolerance.",
        technique="TLA+ spec (Formak.tla) + TLC simulation; one behaviour replayed into Python and generated C++ (differential + oracle)",
    ),
    "C12": dict(
        category="model_checking",
        text="For every (control, calibration, #sensors 0-3) combination drawn, FormaK generates the filter for a TLC-drawn definition "
             "(dt-dependent, non-linear), the driver static_asserts ManagedFilter<...>::compatible, ticks it through tick histories "
             "produced by ManagedFilter.tla and, in the same program, folds process_model/sensor_model by hand in the call order the "
             "spec gives; results must be bit-identical. A failed build is the event Instantiate->failed, which the spec never allows.",
        design_ref="DESIGN.md section 4 C12",
        note="Trusted: Eigen stand-in, g++ 12; blame analysis separates harness-driver build errors (machinery) from generated-code / runtime-header errors.",
        technique="TLA+ specs (Formak.tla for filters, ManagedFilter.tla for tick histories) + TLC simulation; replay into compiled C++",
    ),
    "C14": dict(
        category="fault_enumeration",
        text="Definition.tla states the structural rules as named predicates and a 20-kind fault catalogue (Inject); TLC proves at start-up "
             "that every applicable fault falsifies Valid, enumerates every single fault at every position of 4 valid base definitions "
             "(and every pair in the thorough tier; invariants: faults never cancel, refusal is monotone along the pipeline) and states "
             "the expected outcome at ui.Model, python.compile, python.compile_ekf, cpp.compile, cpp.compile_ekf; every case is presented "
             "to the real entry points (C++ ones with a synthetic argv; a refused definition must not leave a source file). Every single-fault case is also presented on a ui.Model object that has already compiled the valid base definition.",
        design_ref="DESIGN.md section 4 C14",
        note="Trusted: the rule/observability table of Definition.tla (which entry point can observe which rule); refused = any exception.",
        technique="TLA+ spec (Definition.tla fault catalogue) + TLC exhaustive enumeration; spec->code replay into the five entry points",
    ),
    "C15": dict(
        category="model_checking",
        text="Codegen.tla generates presentations of a definition (a declaration permutation for each of ten roles, container kind, "
             "string-vs-expression updates); each PYTHONHASHSEED gets fresh processes that render every (definition, presentation) "
             "through the real cpp.compile_ekf and python.compile_ekf; the recorded generation events (sha256 of header, source, "
             "Python layouts) are validated by TLC against the write-once digest registers of Codegen_Trace.tla. Odd hash seeds render their jobs in reverse order (what was generated earlier in the process must not matter); definitions in which CSE creates temporaries and names that differ in case only are preferred.",
        design_ref="DESIGN.md section 4 C15",
        note="Trusted: sha256; the register spec; string-form and expression-form presentations are separate registers (the property "
             "does not claim they coincide).",
        technique="TLA+ spec (Codegen.tla) generates presentations; code->spec trace validation of generation events (Codegen_Trace.tla)",
    ),
    "C19": dict(
        category="model_checking",
        text="Strapdown.tla states the kinematics from the physics (Hamilton quaternions over exact rationals) and TLC computes all 16 outputs "
             "for every axis-aligned case (25088, thorough) and for non-unit integer / rational unit quaternions, checking the algebra's own "
             "sanity theorems on every point; each point is replayed into the symbolic model (sympy substitution) and into "
             "python.compile(strapdown model) with CSE off and on.",
        design_ref="DESIGN.md section 4 C19",
        note="Trusted: Strapdown.tla's reading of the statement (q = ori (x) cal, roll/pitch/yaw = x/y/z); exact rationals; 1e-9 tolerance.",
        technique="TLA+ spec (Strapdown.tla) + TLC exhaustive/simulation; spec->code replay into the symbolic and compiled model",
    ),
    "C16": dict(
        category="model_checking",
        text="TransformRow (Formak.tla) is the adapter's plan: from the default estimate, per data row predict with the fixed step 1/10 and the "
             "row's controls, then update the sensors in key order; TLC computes every NIS exactly (invariant: all non-negative) and the "
             "score as a formula tree. Each behaviour is replayed into a real SklearnEKFAdapter: NIS per (row, sensor), the recorded call "
             "sequence of the inner filter by control/reading NAME, mahalanobis = flattening, score, a by-hand fold on export_python(), "
             "parameters untouched, repeat call identical. The same relations are checked on a quiet log (NIS 1e-10..1e-6); a weight array handed to score twice gives the same score and is not written to, nor is the data matrix.",
        design_ref="DESIGN.md section 4 C16",
        note="Trusted: exact rational Kalman arithmetic; recording proxy around the real compile_ekf result; reference interpreter for the score tree.",
        technique="TLA+ spec (Formak.tla TransformRow + ScoreTree) + TLC simulation; spec->code replay into the scikit-learn adapter",
    ),
    "C17": dict(
        category="model_checking",
        text="Estimator.tla models the adapter as a parameter record with commands and frame conditions (TLC: all command sequences up to "
             "length 6). TLC-generated command sequences (set_params on every parameter, field, several names in one call, config plus field, "
             "unknown names; get-then-set, clone, queries, fit) are executed on a real adapter over three model universes and varied training "
             "data incl. a corpus on which scipy does not converge; the recorded events with projected parameter state are validated by TLC "
             "against Estimator_Trace.tla (fit nondeterministic: FitOk / FitFail). Commands include export_python (the exported filter must carry the current configuration and noises by name) and fit_transform (= fit, then transform). The specification has models whose controls are renamed (model and noise map exchanged in one call); fixed sequences fit / exchange / fit / exchange back / fit are executed.",
        design_ref="DESIGN.md section 4 C17",
        note="Trusted: the projection (tokens by identity / structural equality; noise maps as key set + finite + positive flags).",
        technique="TLA+ spec (Estimator.tla) generates command sequences; code->spec trace validation (Estimator_Trace.tla)",
    ),
    "C18": dict(
        category="model_checking",
        text="Workflow.tla lets the transition relation range over all 512 digraphs on the three state ids; TLC checks the search theorems "
             "and the history invariants for each, and the real StateMachineState.search is replayed on synthetic state classes realising "
             "every digraph (all 9 pairs + non-id targets). The relation declared by the code must equal the spec's; traces of the real "
             "workflow (moves, histories, searches, fit_model over data sizes and grids with selected/exported hyper-parameters) are "
             "validated by TLC against Workflow_Trace.tla. Two design sessions run one after the other in one process: the second session's defaults must be the library's, whatever the first one searched over.",
        design_ref="DESIGN.md section 4 C18",
        note="Trusted: synthetic subclasses of the real StateMachineState; scikit-learn's GridSearchCV as used by the library.",
        technique="TLA+ spec (Workflow.tla) exhaustive over digraphs + spec->code replay of search; code->spec trace validation of the real workflow",
    ),
    "C09": dict(
        category="model_checking",
        text="Exact part: InvCovValid (symmetric, all principal minors >= 0 over exact rationals) is checked by TLC on every state of "
             "SetEstimate/Predict/Update behaviours of Formak.tla -- including singular-Jacobian models -- and the behaviours are replayed "
             "into the Python filter (never refused, values match). Rounding part: seeded randomised histories of up to 200 steps on the "
             "project's mass/z/v/a model, exactly correlated states, a nonlinear calibrated model, a zero-Jacobian-row model and TLC-drawn "
             "models are recorded (outcome, validity of input and output covariance) and validated by TLC against the protocol CovGate_Trace. Thorough tier: every model / filter call the repository's own test-suite executes is recorded (pytest plugin, /repo untouched), projected against the Jacobian trees Derive.tla derives from the recorded definition and validated by EKFCalls_Trace.tla. The exact behaviours start from covariances D + v v^T that are singular for some rotations and are replayed into the generated C++ filter too. A third family of histories has almost exact sensors (noise 1e-12..1e-10 under covariances of 1..1e5): refusals of strictly valid inputs only. The histories on which the repaired defects D14 and D15 were found are replayed on every run; a fifth model has a two-reading sensor in which large correlated variances cancel (diagonal starts with one variance of 1e8..1e11).",
        design_ref="DESIGN.md section 4 C09 / section 6",
        note="The rounding claim itself is decided by the NumPy projection (relative 1e-9 symmetry / eigenvalue test); TLC checks the exact "
             "update forms and the protocol. Stated in DESIGN.md section 6 as the weakest property for this technique.",
        technique="TLA+ spec (Formak.tla invariant InvCovValid, exact) + code->spec trace validation of randomised histories (CovGate_Trace.tla)",
    ),
    "C13": dict(
        category="model_checking",
        text="Binding.tla gives the abstract result of every keyword / raw-data construction (exhaustive: vectors and covariances over <=3 of 5 "
             "declared names, stranger and near-miss names, all raw shapes) and these are replayed into named_vector / named_covariance / "
             "from_dict / from_data. Formak.tla draws, per definition, a bijective renaming whose sort order is unrelated; TLC checks as an "
             "invariant that the spec's named outputs are invariant, and original, renamed twin and a list/reversed-order presentation are "
             "replayed into Python and generated C++ (same named outputs). The layouts published by Model, SensorModel, ExtendedKalmanFilter, "
             "State classes, the probed C++ field rows and the SensorId order must equal the spec's SortNames. The C++ replays prefer definitions whose names sort differently by code point and ignoring case.",
        design_ref="DESIGN.md section 4 C13",
        note="Trusted: Names.tla's code-point order as the definition of 'the library's name order'; C++ via the Eigen stand-in.",
        technique="TLA+ specs (Binding.tla exhaustive; Formak.tla renaming invariant) + spec->code replay of originals and renamed twins",
    ),
    "C08": dict(
        category="translation_validation",
        text="Every compiled block (model, process/control Jacobian, sensor model, sensor Jacobian) of TLC-drawn definitions with many shared "
             "sub-terms is extracted as a straight-line program -- Python through the guarded hook (post-CSE sympy program), C++ by parsing the "
             "generated function bodies -- and validated by TLC (CSE_Trace.tla): the spec derives the ORIGINAL expressions itself, checks that "
             "every temporary is assigned once, before use, from inputs and earlier temporaries, and that the program's value equals the "
             "original's exactly on the scenario's points. The same scenarios are executed with CSE off and on in both back-ends. A further family builds |t| = sqrt(t^2) around shared compound terms of both signs; elementary-function expectations are compared only where the evaluation is well conditioned; the failing input of known finding F1 is replayed on every run.",
        design_ref="DESIGN.md section 4 C08",
        note="Trusted: the sympy->tree and C-expression->tree converters (unsupported syntax is dropped and counted, never judged); exact "
             "rational evaluation for the rational fragment, reference interpreter for elementary functions.",
        technique="code->spec trace validation of extracted post-CSE programs against a TLA+ spec (CSE_Trace.tla: well-formed SSA + exact equivalence)",
    ),
}

NOT_YET = "check not built yet (work in progress; see DESIGN.md section 8 build order)"


def main():
    hooks_commits = []
    try:
        out = subprocess.run(["git", "-C", "/repo", "log", "--format=%h %s"], capture_output=True, text=True).stdout
        hooks_commits = [l.split()[0] for l in out.splitlines() if l.split(" ", 1)[1].startswith("verif-hook")]
    except Exception:
        pass
    m = {
        "version": 1,
        "setup_cmd": "cd /verif && ./tools/setup.sh",
        "hooks": {
            "guard": "FORMAK_VERIF",
            "enable": "environment variable FORMAK_VERIF=1 (set by /verif/check; read at run time by formak.python.BasicBlock)",
            "baseline_off_cmd": "cd /repo && env -u FORMAK_VERIF /venv/bin/python -m pytest -ra -q -p no:cacheprovider --timeout=900 --continue-on-collection-errors",
            "source_commits": hooks_commits,
            "add_only": True,
        },
        "engines": [
            {"name": "tlc-spec", "path": "/verif/spec", "serves_properties": sorted(CHECKS),
             "kind_free_text": "TLA+ specification suite checked with TLC 1.8 (exhaustive + simulation + trace validation)"},
            {"name": "replay-harness", "path": "/verif/harness", "serves_properties": sorted(CHECKS),
             "kind_free_text": "Python harness: replays TLC behaviours into the real Python objects / generated C++ and feeds recorded traces back to TLC"},
        ],
        "checks": [],
        "not_applicable": [],
        "notes": "Single entry point /verif/check <ID> --tier quick|thorough [--replay path]; exit 0 held, 1 VIOLATION, 2 machinery failure. "
                 "Known findings: /verif/known_findings.json (one open finding F1, upstream sympy -- printed as KNOWN-FINDING by C03 and C08 on every run "
                 "from the fixed input corpus/F1_acos_tanh8.json; fifteen repaired defects listed as fixed:). DESIGN.md section 9 is the as-built record.",
    }
    for pid in PROPS:
        if pid in CHECKS:
            c = CHECKS[pid]
            m["checks"].append({
                "property_id": pid,
                "quick_cmd": "./check %s --tier quick" % pid,
                "thorough_cmd": "./check %s --tier thorough" % pid,
                "evidence_file": "/verif/evidence/%s.json" % pid,
                "replay_cmd_template": "./check %s --replay {path}" % pid,
                "engine": "tlc-spec",
                "level_claimed": {"category": c["category"], "text": c["text"], "design_ref": c["design_ref"]},
                "level_note": c["note"],
                "technique": c["technique"],
            })
        else:
            m["not_applicable"].append({"property_id": pid, "reason": NOT_YET})
    json.dump(m, open("/verif/MANIFEST.json", "w"), indent=1)
    import jsonschema  # noqa
    jsonschema.validate(m, json.load(open("/root/.vp/MANIFEST.schema.json")))
    print("MANIFEST ok: %d checks, %d not_applicable" % (len(m["checks"]), len(m["not_applicable"])))


if __name__ == "__main__":
    main()
