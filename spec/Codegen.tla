------------------------------- MODULE Codegen -------------------------------
(***************************************************************************)
(* Determinism of code generation (C15).                                   *)
(*                                                                         *)
(* A definition has ONE abstract content and MANY presentations: the order *)
(* in which symbols / update entries / noise entries / sensors / readings  *)
(* are declared (a permutation per role), the container used for the       *)
(* symbol collections, whether update expressions are given as strings,    *)
(* and the hash seed of the process doing the generation.                  *)
(*                                                                         *)
(*   Present(...)  chooses a presentation (this module is also the         *)
(*                 GENERATOR of the presentations the harness renders);    *)
(*   Generate(d, h) records the artefact digest h produced for definition  *)
(*                 d: the first generation fixes digest[d]; every later    *)
(*                 one must reproduce it (write-once register).            *)
(***************************************************************************)
EXTENDS Integers, Sequences, FiniteSets, TLC, Json

CONSTANTS MaxN,        \* permutations are over 1..MaxN (restricted to the actual sizes by the harness)
          Containers,  \* e.g. {"set","list","tuple","frozenset"}
          NumPres      \* presentations per behaviour

VARIABLES pres, cur, done

Perms(n) == {p \in [1..n -> 1..n] : \A i, j \in 1..n : i # j => p[i] # p[j]}
Roles == <<"state", "control", "calib", "update", "calmap", "pnoise", "sensors", "readings", "snoise", "snoise_readings">>

Init == pres = <<>> /\ done = FALSE /\ cur = [container |-> "set", as_string |-> FALSE, perm |-> <<>>]

\* a presentation is built one choice at a time (small steps: simulate mode enumerates successors)
ChooseRole(p) ==
  /\ Len(cur.perm) < Len(Roles)
  /\ p \in Perms(MaxN)
  /\ cur' = [cur EXCEPT !.perm = Append(@, p)]
  /\ UNCHANGED <<pres, done>>

ChooseForm(c, s) ==
  /\ Len(cur.perm) = Len(Roles)
  /\ c \in Containers /\ s \in BOOLEAN
  /\ pres' = Append(pres, [container |-> c, as_string |-> s,
                            order |-> [i \in 1..Len(Roles) |-> cur.perm[i]]])
  /\ cur' = [container |-> "set", as_string |-> FALSE, perm |-> <<>>]
  /\ UNCHANGED done

Emit ==
  /\ Len(pres) = NumPres /\ cur.perm = <<>>
  /\ PrintT(ToJson([roles |-> Roles, presentations |-> pres]))
  /\ done' = TRUE /\ UNCHANGED <<pres, cur>>

Next == (\E p \in Perms(MaxN) : ~done /\ Len(pres) < NumPres /\ ChooseRole(p))
        \/ (\E c \in Containers : \E s \in BOOLEAN : ~done /\ Len(pres) < NumPres /\ ChooseForm(c, s))
        \/ (~done /\ Emit)

(***************************************************************************)
(* The register semantics used by the trace specification.                 *)
(***************************************************************************)
NoDigest == 0
\* digest register after an event; "clash" if a different artefact is produced
GenerateOK(reg, h) == reg = NoDigest \/ reg = h
GenerateNext(reg, h) == IF reg = NoDigest THEN h ELSE reg
=============================================================================
