INIT Init
NEXT Next
CONSTANTS
  MaxFaults = 2
  Bases <- cBases
  EmitOn = TRUE
INVARIANT InvFaultedInvalid
INVARIANT InvMonotone
CHECK_DEADLOCK FALSE
