#!/bin/sh
# usage: try_seed.sh <patch.diff> <tier> <PROP> [<PROP> ...]
# Applies a seeded change to /repo, runs the given checks, and ALWAYS restores /repo afterwards.
patch=$1; tier=$2; shift 2
cd /repo || exit 2
if ! git diff --quiet; then echo "/repo working tree is dirty, refusing"; exit 2; fi
if ! git apply --check "$patch" 2>/dev/null; then echo "patch does not apply: $patch"; exit 2; fi
git apply "$patch"
trap 'git -C /repo checkout -- . ; git -C /repo clean -fdq -- py cpp >/dev/null 2>&1' EXIT INT TERM
ev=$(mktemp -d /tmp/seed-evidence.XXXXXX)      # evidence of runs against a seeded tree is scratch
for p in "$@"; do
  out=$(cd /verif && VERIF_EVIDENCE_DIR="$ev" ./check $p --tier $tier 2>/dev/null)
  rc=$?
  n=$(printf '%s\n' "$out" | grep -c '^VIOLATION')
  first=$(printf '%s\n' "$out" | grep -A1 '^VIOLATION' | sed -n 2p | cut -c1-220)
  echo "RESULT $p exit=$rc violations=$n $first"
done
rm -rf "$ev"
