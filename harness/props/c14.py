"""C14 -- structurally invalid definitions are refused; valid ones are accepted (fault enumeration)."""
import json
import os
import shutil
import sys
import tempfile
import traceback

import tlc
import workers
from build import to_sympy, tree_syms, named, fl
from common import finish, sha

LEVEL = "fault_enumeration"
ASSUME = ["the fault catalogue and the per-entry expectation are Definition.tla (TLC checks at start-up that every applicable fault "
          "falsifies Valid, and as invariants that faults never cancel and that refusal is monotone along the pipeline)",
          "refused = any exception at definition or compile time; accepted = object returned (C++ entries: header and source written)",
          "C++ entry points are the real cpp.compile / cpp.compile_ekf with a synthetic sys.argv"]

ENTRIES = ["ui.Model", "python.compile", "python.compile_ekf", "cpp.compile", "cpp.compile_ekf"]
CONTAINERS = {"set": set, "list": list, "tuple": tuple, "frozenset": frozenset}


def _args(symtab, d, ui):
    """(calibration map, process noise, sensor models, sensor noises) of definition JSON d over the symbols of symtab"""
    calmap = named(d["calmap"])
    pnoise = named(d["pnoise"])
    sensors = {k: named(v) for k, v in named(d["sensors"]).items()}
    snoise = {k: named(v) for k, v in named(d["snoise"]).items()}
    ppairs = named(d.get("ppairs", {}))
    cm = {symtab[n]: fl(q) for n, q in calmap.items()}
    pn = {(symtab[n] if n not in ppairs else (symtab[ppairs[n][0]], symtab[ppairs[n][1]])): fl(q) for n, q in pnoise.items()}
    sm = {k: {r: to_sympy(t, symtab) for r, t in m.items()} for k, m in sensors.items()}
    sn = {k: {r: fl(q) for r, q in m.items()} for k, m in snoise.items()}
    return cm, pn, sm, sn


def present(mods, sc, container_name="set", warm=None):
    """Present the (possibly faulted) definition to the five entry points.  -> {entry: [outcome, info]}
    warm: the VALID definition of the same base.  When the fault does not touch what ui.Model is built from, the valid
    definition is compiled first on the very same ui.Model object -- a verdict must not be remembered on the object."""
    ui, python, cpp = mods["ui"], mods["python"], mods["cpp"]
    d = sc["def"]
    container = CONTAINERS[container_name]
    update = named(d["update"])
    calmap = named(d["calmap"])
    pnoise = named(d["pnoise"])
    sensors = {k: named(v) for k, v in named(d["sensors"]).items()}
    snoise = {k: named(v) for k, v in named(d["snoise"]).items()}
    ppairs = named(d.get("ppairs", {}))
    names = set(d["state"]) | set(d["control"]) | set(d["calib"]) | set(update) | set(calmap) | (set(pnoise) - set(ppairs)) | {"dt"}
    for t in list(update.values()) + [t for m in sensors.values() for t in m.values()]:
        names |= tree_syms(t)
    symtab = {n: ui.Symbol(n) for n in sorted(names)}
    out = {}
    try:
        model = ui.Model(dt=symtab["dt"], state=container(symtab[n] for n in sorted(d["state"])),
                         control=container(symtab[n] for n in sorted(d["control"])),
                         state_model={symtab[n]: to_sympy(t, symtab) for n, t in sorted(update.items())},
                         calibration=container(symtab[n] for n in sorted(d["calib"])))
        out["ui.Model"] = ["accepted", ""]
    except Exception as e:
        for ent in ENTRIES:
            out[ent] = ["refused", type(e).__name__ + ": " + str(e)[:120]]
        return out
    cm = {symtab[n]: fl(q) for n, q in calmap.items()}
    pn = {(symtab[n] if n not in ppairs else (symtab[ppairs[n][0]], symtab[ppairs[n][1]])): fl(q) for n, q in pnoise.items()}
    sm = {k: {r: to_sympy(t, symtab) for r, t in m.items()} for k, m in sensors.items()}
    sn = {k: {r: fl(q) for r, q in m.items()} for k, m in snoise.items()}
    cfg = {"common_subexpression_elimination": False}
    if warm is not None and all(json.dumps(warm[f], sort_keys=True) == json.dumps(d[f], sort_keys=True) for f in ("state", "control", "calib", "update")):
        try:
            names_w = set(symtab)
            wsyms = dict(symtab)
            for t in [t for m in named(warm["sensors"]).values() for t in named(m).values()]:
                for n in tree_syms(t):
                    wsyms.setdefault(n, ui.Symbol(n))
            wcm, wpn, wsm, wsn = _args(wsyms, warm, ui)
            python.compile(model, calibration_map=dict(wcm), config=cfg)
            python.compile_ekf(model, process_noise=dict(wpn), sensor_models=wsm, sensor_noises=wsn, calibration_map=dict(wcm), config=cfg)
            out["_warmed"] = ["accepted", "valid definition compiled first on the same ui.Model object"]
        except Exception as e:
            out["_warmed"] = ["refused", type(e).__name__ + ": " + str(e)[:120]]

    def attempt(name, fn):
        try:
            r = fn()
            out[name] = ["accepted", type(r).__name__]
        except Exception as e:
            out[name] = ["refused", type(e).__name__ + ": " + str(e)[:120]]

    attempt("python.compile", lambda: python.compile(model, calibration_map=dict(cm), config=cfg))
    attempt("python.compile_ekf", lambda: python.compile_ekf(model, process_noise=dict(pn), sensor_models=sm, sensor_noises=sn,
                                                             calibration_map=dict(cm), config=cfg))
    for name in ("cpp.compile", "cpp.compile_ekf"):
        tmp = tempfile.mkdtemp(prefix="verif-c14-")
        gdir = os.path.join(tmp, "generated", "formak")
        os.makedirs(gdir)
        header, source = os.path.join(gdir, "gen.h"), os.path.join(gdir, "gen.cpp")
        argv = sys.argv
        sys.argv = ["generator.py", "--header", header, "--source", source, "--namespace", "gen"]
        try:
            if name == "cpp.compile":
                r = cpp.compile(model, calibration_map=dict(cm), config=cfg)
            else:
                r = cpp.compile_ekf(model, process_noise=dict(pn), sensor_models=sm, sensor_noises=sn,
                                    calibration_map=dict(cm), config=cfg)
            wrote = os.path.exists(header) and os.path.exists(source) and os.path.getsize(header) > 0
            out[name] = ["accepted" if (r.success and wrote) else "refused", "success=%s wrote=%s" % (r.success, wrote)]
        except Exception as e:
            wrote = os.path.exists(header) or os.path.exists(source)
            out[name] = ["refused", type(e).__name__ + ": " + str(e)[:120] + (" BUT-FILE-WRITTEN" if wrote else "")]
        finally:
            sys.argv = argv
            shutil.rmtree(tmp, ignore_errors=True)
    return out


def present_batch(mods, items):
    res = []
    for it in items:
        sc, cont = it[0], it[1]
        try:
            res.append(present(mods, sc, cont, it[2] if len(it) > 2 else None))
        except Exception:
            res.append({"_harness_error": traceback.format_exc()[-800:]})
    return res


def fault_key(sc):
    return "+".join(sorted(f["kind"] for f in sc["faults"])) or "valid"


def run(ctx):
    quick = ctx.quick
    cfg = "MC_C14_pairs.cfg"      # singles and all pairs: the whole catalogue costs a few seconds
    r = tlc.run("MC_C14", cfg=cfg, workers=8, timeout=600, coverage=True)
    if r.violation:
        ctx.violation("spec-invariant", r.violation[:800], {})
        return finish(ctx, LEVEL, {"evaluations": 1, "distinct_nontrivial": 2, "rule": "", "samples": [r.violation[:300]]}, ASSUME)
    # de-duplicate by faulted definition (ordered pairs give the same definition twice)
    seen = {}
    for sc in r.printed:
        seen.setdefault(sha(sc["def"]), sc)
    cases = list(seen.values())
    items = []
    valid_of = {sc["base"]: sc["def"] for sc in cases if sc["valid"] and not sc["faults"]}
    for sc in cases:
        if sc["valid"]:
            for cont in ("set", "list", "tuple", "frozenset"):
                items.append((sc, cont))
        else:
            items.append((sc, "set"))
            if len(sc["faults"]) == 1:
                items.append((sc, "list"))
                if sc["base"] in valid_of:
                    # history: the valid definition of the same base was compiled first on the SAME ui.Model object
                    items.append((sc, "set", valid_of[sc["base"]]))
    ctx.log("TLC: %d states, %d distinct faulted/valid definitions -> %d presentations x 5 entry points" % (r.distinct, len(cases), len(items)))
    chunks = [items[i::ctx.cores] for i in range(ctx.cores)]
    chunks = [c for c in chunks if c]
    res = workers.run_tasks([("props.c14", "present_batch", (c,), 900) for c in chunks], procs=ctx.cores)
    n_eval = 0
    kinds = set()
    for c, (status, outs) in zip(chunks, res):
        if status != "ok":
            raise RuntimeError("C14 batch failed: %s %s" % (status, outs))
        for it, out in zip(c, outs):
            sc, cont = it[0], it[1] + ("+same-model-object-after-a-valid-compile" if len(it) > 2 else "")
            if "_harness_error" in out:
                ctx.dropped += 1
                ctx.notes.append(out["_harness_error"][-300:])
                continue
            kinds.add(fault_key(sc))
            for ent in ENTRIES:
                n_eval += 1
                exp = sc["expected"][ent]
                got, info = out[ent]
                if got != exp:
                    if exp == "refused":
                        key = "accepted-invalid:%s:%s" % (ent, fault_key(sc))
                        detail = "%s ACCEPTED a definition with fault(s) %s (base %d, container %s): %s" % (ent, fault_key(sc), sc["base"], cont, info)
                    else:
                        key = "refused-valid:%s:%s:%s" % (ent, fault_key(sc), cont)
                        detail = "%s REFUSED a definition it must accept (base %d, faults %s, container %s): %s" % (ent, sc["base"], fault_key(sc), cont, info)
                    ctx.violation(key, detail, {"case": sc, "container": cont, "observed": out})
                elif "BUT-FILE-WRITTEN" in info:
                    ctx.violation("refused-but-file-written:%s:%s" % (ent, fault_key(sc)), info, {"case": sc, "observed": out})
    cov = {"evaluations": n_eval, "distinct_nontrivial": len(cases), "fault_kinds_or_pairs": len(kinds),
           "rule": "case = valid base definition (4 bases: control/calibration/sensor combinations) with 0, 1%s faults of the 21-kind catalogue injected "
                   "at every applicable position; distinct = distinct resulting definitions; every case is presented to ui.Model, python.compile, "
                   "python.compile_ekf, cpp.compile, cpp.compile_ekf; valid bases with set/list/tuple/frozenset containers" % " or 2",
           "samples": [{"base": c["base"], "faults": c["faults"], "expected": c["expected"]} for c in cases[1:4]],
           "exhaustive": True, "states": r.distinct, "transitions": r.states,
           "exhaustive_scope": "all single faults and all pairs of the catalogue on 4 bases"}
    return finish(ctx, LEVEL, cov, ASSUME)


def replay(ctx, path):
    body = json.load(open(path))
    sc = body["payload"]["case"]
    res = workers.run_tasks([("props.c14", "present_batch", ([(sc, body["payload"].get("container", "set"))],), 300)], procs=1)
    print(json.dumps(res[0][1][0], indent=1))
    bad = [e for e in ENTRIES if res[0][1][0][e][0] != sc["expected"][e]]
    if bad:
        print("VIOLATION property=C14 replay=%s" % path)
        return 1
    return 0
