---------------------------- MODULE Workflow_Trace ----------------------------
(***************************************************************************)
(* Trace validation for C18: events recorded from the real design workflow *)
(*   Create                       -> Init (history = <<Start>>)            *)
(*   Move(to, history)            -> Move(to): only along declared         *)
(*                                   transitions, history grows by one id  *)
(*   FitModel(nsamples, grid, outcome, selected, exported)                 *)
(*                                -> FitOutcomeOK                          *)
(*   Search(from, to, result)     -> result has the shortest length, or    *)
(*                                   "unreachable" iff Dist = -1           *)
(***************************************************************************)
EXTENDS MC_Workflow, IOUtils, TLCExt

Traces == JsonDeserialize(IOEnv.TRACE_FILE)
VARIABLES tid, l
tvars == <<vars, tid, l>>
ASSUME \A t \in 1..Len(Traces) : TLCSet(t, 0)

Ev == Traces[tid][l]
ToSet(s) == {s[i] : i \in DOMAIN s}

TInit == /\ tid \in 1..Len(Traces) /\ l = 2
         /\ Traces[tid][1].event = "Create" /\ Traces[tid][1].history = <<Start>>
         /\ edges = RealEdges /\ cur = Start /\ history = <<Start>> /\ done = FALSE

Step == l <= Len(Traces[tid]) /\ l' = l + 1 /\ UNCHANGED tid

TMove == /\ Ev.event = "Move" /\ Move(Ev.to) /\ history' = Ev.history /\ Step
TFit  == /\ Ev.event = "FitModel"
         /\ FitOutcomeOK(Ev.nsamples, [k \in DOMAIN Ev.grid |-> ToSet(Ev.grid[k])], Ev.outcome, Ev.selected, Ev.exported, Ev.defaults)
         /\ UNCHANGED vars /\ Step
TSearch == /\ Ev.event = "Search"
           /\ LET d == Dist(edges, Ev.from, Ev.to) IN
              IF d = -1 THEN Ev.result = "unreachable" ELSE Ev.result = d
           /\ UNCHANGED vars /\ Step
TNext == l <= Len(Traces[tid]) /\ (TMove \/ TFit \/ TSearch)

Reach == TLCSet(tid, IF TLCGet(tid) < l THEN l ELSE TLCGet(tid))
Post == \A t \in 1..Len(Traces) :
          IF TLCGet(t) = Len(Traces[t]) + 1 THEN PrintT(<<"ACCEPT", t>>)
          ELSE PrintT(<<"REJECT", t, TLCGet(t)>>)
=============================================================================
