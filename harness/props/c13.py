"""C13 -- values are bound by name, never by position or spelling."""
import json

import cppcheck
import scen
import tlc
import workers
from build import Definition, named, fl
from common import finish

LEVEL = "model_checking"
ASSUME = ["Binding.tla gives the abstract result of every keyword / raw-data construction (exhaustive over <=3 declared names, 3 stranger names)",
          "renaming: Formak.tla draws a renamed twin per definition; TLC checks as an invariant that the specification's named outputs are invariant "
          "under the renaming; the twin is replayed into Python and C++ and must produce the same named outputs",
          "published layouts (arglists, reading order, probed C++ field order) must equal the specification's SortNames"]


# ---------------------------------------------------------------- constructors ----
def construct_batch(mods, cases):
    import numpy as np
    common = mods["common"]
    ui = mods["ui"]
    out = []
    for c in cases:
        names = c["arglist"]
        syms = [ui.Symbol(n) for n in names]
        mism = []
        for style in ("symbols", "strings"):
            arglist = syms if style == "symbols" else list(names)
            cls = (common.named_vector if c["kind"] == "vector" else common.named_covariance)("T", arglist)
            if c["mode"] == "keyword":
                kw = {n: fl(q) for n, q in named(c["kw"]).items()}
                for how in ("kwargs", "from_dict"):
                    try:
                        obj = cls(**kw) if how == "kwargs" else cls.from_dict({(ui.Symbol(n) if style == "symbols" else n): v for n, v in kw.items()})
                        got = "ok"
                    except TypeError:
                        got, obj = "refused", None
                    except Exception as e:
                        got, obj = "exception:" + type(e).__name__, None
                    exp = c["expect"]["outcome"]
                    if got != exp:
                        mism.append({"style": style, "how": how, "expected": exp, "observed": got})
                        continue
                    if obj is None:
                        continue
                    data = named(c["expect"]["data"])
                    for i, r in enumerate(names):
                        if c["kind"] == "vector":
                            if obj.data.shape != (len(names), 1) or abs(float(obj.data[i, 0]) - fl(data[r])) > 0:
                                mism.append({"style": style, "how": how, "name": r, "expected": fl(data[r]), "observed": obj.data.tolist()})
                        else:
                            for j, cc in enumerate(names):
                                if obj.data.shape != (len(names), len(names)) or abs(float(obj.data[i, j]) - fl(data[r][cc])) > 0:
                                    mism.append({"style": style, "how": how, "name": [r, cc], "expected": fl(data[r][cc]), "observed": obj.data.tolist()})
            else:
                shp = tuple(c["shape"])
                try:
                    obj = cls.from_data(np.zeros(shp))
                    got = "ok"
                except ValueError:
                    got = "refused"
                except Exception as e:
                    got = "exception:" + type(e).__name__
                if got != c["expect"]["outcome"]:
                    mism.append({"style": style, "how": "from_data", "shape": list(shp), "expected": c["expect"]["outcome"], "observed": got})
        out.append(mism)
    return out


# -------------------------------------------------------------------- renaming ----
def rename_scenario(scn):
    rho = {a: b for a, b in scn["rename"]}

    def rn(n):
        return rho.get(n, n)

    def rexpr(e):
        op = e["op"]
        if op == "sym":
            return {"op": "sym", "name": rn(e["name"])}
        if op == "const":
            return e
        if op in ("add", "sub", "mul", "div"):
            return {"op": op, "l": rexpr(e["l"]), "r": rexpr(e["r"])}
        if op == "neg":
            return {"op": "neg", "a": rexpr(e["a"])}
        if op == "pow":
            return {"op": "pow", "b": rexpr(e["b"]), "n": e["n"]}
        return {"op": "fn", "f": e["f"], "a": rexpr(e["a"])}

    def rvec(v):
        return {rn(k): q for k, q in named(v).items()}

    def rmat(m, rows=True, cols=True):
        return {(rn(r) if rows else r): {(rn(c) if cols else c): q for c, q in named(row).items()} for r, row in named(m).items()}
    d = scn["def"]
    d2 = {"state": [rn(n) for n in d["state"]], "control": [rn(n) for n in d["control"]], "calib": [rn(n) for n in d["calib"]],
          "update": {rn(k): rexpr(t) for k, t in named(d["update"]).items()}, "calmap": rvec(d["calmap"]), "pnoise": rvec(d["pnoise"]),
          "sensors": {k: {r: rexpr(t) for r, t in named(m).items()} for k, m in named(d["sensors"]).items()},
          "snoise": d["snoise"], "k": d["k"]}
    steps = []
    for st in scn["steps"]:
        t = dict(st)
        for f in ("x", "u", "xn"):
            if f in t:
                t[f] = rvec(t[f])
        if "P" in t:
            t["P"] = rmat(t["P"])
        if "G" in t:
            t["G"] = rmat(t["G"])
            t["V"] = rmat(t["V"])
            t["Gt"] = {}
            t["Vt"] = {}
        if "H" in t:
            t["H"] = rmat(t["H"], rows=False)
            t["Ht"] = {}
        steps.append(t)
    lay = scn["layout"]
    return {"def": d2, "steps": steps, "names": [rn(n) for n in scn["names"]], "skeys": scn["skeys"], "rnames": scn["rnames"],
            "layout": {"state": sorted(rn(n) for n in lay["state"]), "control": sorted(rn(n) for n in lay["control"]),
                       "calib": sorted(rn(n) for n in lay["calib"]), "sensors": lay["sensors"], "readings": lay["readings"]}}


def run(ctx):
    quick = ctx.quick
    # (1) constructors
    rb = tlc.run("MC_Binding", workers=8, timeout=300)
    if rb.violation:
        ctx.violation("spec-invariant", rb.violation[:600], {})
    cases = rb.printed
    chunks = [cases[i::ctx.cores] for i in range(ctx.cores)]
    res = workers.run_tasks([("props.c13", "construct_batch", (c,), 600) for c in chunks if c], procs=ctx.cores)
    ncons = 0
    for c, (status, outs) in zip([c for c in chunks if c], res):
        if status != "ok":
            raise RuntimeError(outs)
        for case, mism in zip(c, outs):
            ncons += 1
            if mism:
                m = mism[0]
                ctx.violation("construct:%s:%s:%s" % (case["kind"], case["mode"], m.get("how")),
                              "%s over %s with %s: expected %s observed %s" % (case["kind"], case["arglist"], case.get("kw") or case.get("shape"), m.get("expected"), m.get("observed")),
                              {"case": case, "mismatches": mism[:5]})
    # (2) renaming twins + (3) layouts + (4) presentations
    scns, stats = scen.generate(ctx, None, ("MC_EKF", "MC_C13_sim.cfg"), sim_num=(48 if quick else 800), sim_depth=100)
    if scns is None:
        ctx.violation("spec-invariant", stats["tlc_violation"][:800], stats)
        scns = []
    # rational-only config: every expected value is exact, twins are fully determined
    scns = [s for s in scns if Definition(s["def"]).all_rational()]
    twins = []
    for s in scns:
        t = rename_scenario(s)
        t["_id"] = s["_id"] + "-twin"
        twins.append(t)
    r1 = scen.replay_all(ctx, scns, cse_settings=(True,), force_ekf=True)
    c1 = scen.record_results(ctx, r1, key_prefix="py:original:")
    r2 = scen.replay_all(ctx, twins, cse_settings=(True,), force_ekf=True)
    c2 = scen.record_results(ctx, r2, key_prefix="py:renamed-twin:")
    pres = {"container": list, "order": None, "as_string": False}
    r3 = scen.replay_all(ctx, scns[: (16 if quick else 200)], cse_settings=(False,), force_ekf=True, presentation={"container": "list-reversed"})
    c3 = scen.record_results(ctx, r3, key_prefix="py:list-reversed:")
    ncpp = 10 if quick else 80

    def lookalikes(s_):
        # names where one is a prefix of another (x / x2 / x_1, a / ab / ab1): the spellings most likely to be confused or mis-sorted
        ns = list(s_["def"]["state"]) + list(s_["def"]["control"]) + list(s_["def"]["calib"])
        return sum(1 for a in ns for b in ns if a != b and b.startswith(a))
    def caseorder(s_):
        # a role whose names sort differently by code point and ignoring case (B, a / a_b, aB, Ab): any layout that is sorted the
        # other way round somewhere shows there
        return sum(3 for role in ("state", "control", "calib") if sorted(s_["def"][role]) != sorted(s_["def"][role], key=lambda n: (n.lower(), n)))
    order = sorted(range(len(scns)), key=lambda i: -(lookalikes(scns[i]) + lookalikes(twins[i]) + caseorder(scns[i]) + caseorder(twins[i])))[:ncpp]
    rc1 = cppcheck.replay_cpp(ctx, [scns[i] for i in order], cse_settings=(True,), kind="ekf")
    k1 = cppcheck.record(ctx, rc1, key_prefix="cpp:original:")
    rc2 = cppcheck.replay_cpp(ctx, [twins[i] for i in order], cse_settings=(True,), kind="ekf")
    k2 = cppcheck.record(ctx, rc2, key_prefix="cpp:renamed-twin:")
    cov = {"states": rb.distinct + stats.get("states", 0), "transitions": rb.states + stats.get("transitions", 0),
           "traces_validated_against_impl": len(scns) + len(twins) + ncons,
           "samples": [{"rename": scns[0]["rename"], "layout": scns[0]["layout"], "scenario": scen.summarise(scns[0])}] if scns else [cases[0]],
           "evaluations": ncons + c1["values_compared"] + c2["values_compared"] + c3["values_compared"] + k1["cpp_values_compared"] + k2["cpp_values_compared"],
           "distinct_nontrivial": len(scns), "constructor_cases": ncons,
           "exhaustive": True, "exhaustive_scope": "Binding.tla: all keyword constructions over <=3 of 5 declared names + 3 stranger names, all raw shapes 0..4 x 0..4, vectors and covariances",
           "rule": "constructor case = (kind, declared names, keyword set or raw shape); renaming case = (definition, bijective renaming drawn by TLC) "
                   "replayed as original and as twin into Python (and C++), plus a list/reversed-order presentation",
           "python": {"original": c1, "twin": c2, "list_reversed": c3}, "cpp": {"original": k1, "twin": k2}}
    return finish(ctx, LEVEL, cov, ASSUME)


def replay(ctx, path):
    print("replay: re-run ./check C13")
    return 2
