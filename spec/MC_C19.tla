---- MODULE MC_C19 ----
EXTENDS Strapdown
Q(a, b, c, d) == <<RI(a), RI(b), RI(c), RI(d)>>
\* axis-aligned unit quaternions: where sign / axis errors live
cQuatsAxis == <<Q(1,0,0,0), Q(-1,0,0,0), Q(0,1,0,0), Q(0,-1,0,0), Q(0,0,1,0), Q(0,0,-1,0), Q(0,0,0,1), Q(0,0,0,-1)>>
V(a, b, c) == <<RI(a), RI(b), RI(c)>>
cVecs2Axis == <<V(0,0,0), V(1,2,3)>>
cVecsAxis == <<V(1,0,0), V(-1,0,0), V(0,1,0), V(0,-1,0), V(0,0,1), V(0,0,-1), V(0,0,0)>>
\* general: integer (non-unit) quaternions, rational unit quaternions p(x)p/|p|^2, half-angle rotations
UQ(a, b, c, d) == LET p == Q(a, b, c, d) n == QNorm2(p) IN QScale(QMul(p, p), RDiv(One, n))
cQuatsGen == <<Q(1,0,0,0), Q(1,1,0,0), Q(1,0,-1,0), Q(2,-1,1,0), Q(1,2,-2,1), Q(0,1,1,-1), Q(-1,2,0,3), Q(3,-1,-2,1),
               UQ(1,1,0,0), UQ(1,0,1,0), UQ(1,1,1,1), UQ(2,1,0,-1), UQ(1,-2,2,0), UQ(0,1,2,2),
               <<RQ(1,2), RQ(1,2), RQ(1,2), RQ(1,2)>>, <<RQ(3,5), Zero, RQ(4,5), Zero>>>>
cVecsGen == <<V(1,0,0), V(0,-1,0), V(0,0,1), V(1,2,3), V(-2,1,2), V(3,-1,-2), V(0,0,0), <<RQ(1,2), RI(-1), RQ(3,2)>>,
              <<RQ(-3,4), RQ(1,4), RI(2)>>, V(2,2,-1)>>
cDts == <<RQ(1,8), RQ(1,4), RQ(1,2)>>
cDt1 == <<RQ(1,2)>>
cGs == <<RI(10), RQ(49,5), RI(0), RI(-2)>>
cG1 == <<RI(10)>>
====
