INIT Init
NEXT Next
CONSTANTS
  MaxN = 3
  Containers = {"set", "list", "tuple", "frozenset"}
  NumPres = 6
CHECK_DEADLOCK FALSE
