"""Task functions executed inside pool workers (first argument: dict of formak modules)."""
import pyrep


def py_replay(mods, scn, cse, presentation=None, force_ekf=False, keep_trace=False):
    r = pyrep.replay(scn, mods["ui"], mods["python"], cse=cse, presentation=presentation, force_ekf=force_ekf)
    return {"mismatches": [dict(m) for m in r.mismatches], "values": r.values, "steps": r.steps,
            "skipped": r.skipped, "trace": r.trace if keep_trace else None}


def mf_replay_batch(mods, scns):
    import mfrep
    out = []
    for s in scns:
        out.append(mfrep.replay(mods, s))
    return out


def cpp_generate(mods, scn, cse, outdir, kind="ekf", presentation=None, via_entry=False):
    import cpprep
    return cpprep.generate_task(mods, scn, cse, outdir, kind=kind, presentation=presentation, via_entry=via_entry)


def mf_decimal_batch(mods, scns, unit):
    import mfcheck
    return mfcheck.decimal_python(mods, scns, unit)


def mf_long_batch(mods, moves, unit):
    import mfcheck
    return mfcheck.long_moves_python(mods, moves, unit)
