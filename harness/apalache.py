"""Apalache (symbolic, SMT) runs for the few unbounded arithmetic theorems of the suite."""
import os
import shutil
import subprocess
import tempfile
import time

SPEC_DIR = "/verif/spec"


def check_inv(module, inv, length=0, timeout=600):
    """apalache-mc check --inv=<inv> --length=<length>.  Returns dict(ok, outcome, wall_s)."""
    work = tempfile.mkdtemp(prefix="verif-apa-")
    try:
        shutil.copy(os.path.join(SPEC_DIR, module + ".tla"), work)
        t0 = time.time()
        env = dict(os.environ)
        # (the apalache-mc launcher makes its java.io.tmpdir with `mktemp -d -t SANY...`: keep it inside the work directory)
        env["TMPDIR"] = work
        p = subprocess.run(["apalache-mc", "check", "--inv=" + inv, "--length=%d" % length, "--out-dir=" + os.path.join(work, "out"), module + ".tla"],
                           cwd=work, env=env, capture_output=True, text=True, timeout=timeout)
        out = p.stdout + p.stderr
        outcome = "unknown"
        for line in out.splitlines():
            if "The outcome is:" in line:
                outcome = line.split("The outcome is:")[1].split()[0]
        return {"ok": outcome == "NoError" and p.returncode == 0, "outcome": outcome, "wall_s": round(time.time() - t0, 1), "tail": out[-600:]}
    finally:
        shutil.rmtree(work, ignore_errors=True)
