"""pytest plugin (loaded with -p repo_ekf_recorder, PYTHONPATH=/verif/harness): records the filter calls executed by the
repository's OWN tests -- python.Model.model, ExtendedKalmanFilter.process_model / sensor_model -- with the definition each
filter was built from (as Expr trees for the specification) and the exact inputs / outputs, as JSON lines in
$VERIF_RECORD_FILE.  Nothing in /repo is touched; the classes are wrapped at configure time and behave as before.

Constants that are not small rationals become named parameters (K_1, K_2, ...) of the definition: the specification
differentiates symbolically and treats them like any symbol that is not a state."""
import json
import os
from fractions import Fraction

FULL_PER_FILTER = 40          # calls recorded with all data, per filter object
FULL_PER_TEST = 600


def _tree_with_params(expr, params):
    import sympy
    import ssa

    def conv(e):
        if isinstance(e, (sympy.Integer, sympy.Rational)):
            q = Fraction(int(e.p), int(e.q))
            if abs(q.numerator) <= 1000 and q.denominator <= 1000:
                return ssa.const(q)
            return param(float(e))
        if isinstance(e, (sympy.Float, float)):
            q = Fraction(float(e))
            if abs(q.numerator) <= 1000 and q.denominator <= 1000:
                return ssa.const(q)
            return param(float(e))
        if isinstance(e, int):
            return conv(sympy.Integer(e))
        if isinstance(e, sympy.Symbol):
            return {"op": "sym", "name": e.name}
        if isinstance(e, sympy.Add):
            return ssa._fold("add", [conv(a) for a in e.args])
        if isinstance(e, sympy.Mul):
            return ssa._fold("mul", [conv(a) for a in e.args])
        if isinstance(e, sympy.Pow):
            b, x = e.args
            if isinstance(x, (sympy.Integer, sympy.Rational)) and int(x.q) in (1, 2) and abs(int(x.p)) <= 8:
                return _pow(conv(b), Fraction(int(x.p), int(x.q)))
            raise ssa.Unsupported("exponent %s" % (x,))
        name = type(e).__name__
        if name in ("sin", "cos", "exp", "tanh", "atan", "log", "tan", "asin", "acos"):
            return {"op": "fn", "f": name, "a": conv(e.args[0])}
        raise ssa.Unsupported("sympy node %s" % name)

    def _pow(base, x):
        if x.denominator == 1:
            n = x.numerator
            if n == 0:
                return ssa.const(1)
            if n > 0:
                return base if n == 1 else {"op": "pow", "b": base, "n": n}
            inv = base if n == -1 else {"op": "pow", "b": base, "n": -n}
            return {"op": "div", "l": ssa.const(1), "r": inv}
        root = {"op": "fn", "f": "sqrt", "a": base}
        return _pow(root, Fraction(x.numerator))

    def param(v):
        for k, w in params.items():
            if w == v:
                return {"op": "sym", "name": k}
        k = "K_%d" % (len(params) + 1)
        params[k] = v
        return {"op": "sym", "name": k}
    return conv(sympy.sympify(expr))


def pytest_configure(config):
    import sys
    sys.path.insert(0, os.path.join(os.environ.get("VERIF_REPO", "/repo"), "py"))
    path = os.environ.get("VERIF_RECORD_FILE")
    if not path:
        return
    import numpy as np
    import formak.python as fp
    counter = {"fid": 0, "per_test": {}, "skipped": 0}

    def emit(rec):
        with open(path, "a") as fh:
            fh.write(json.dumps(rec) + "\n")

    def test_id():
        return os.environ.get("PYTEST_CURRENT_TEST", "").split(" ")[0]

    def budget(obj):
        t = test_id()
        n = counter["per_test"].get(t, 0)
        k = getattr(obj, "_verif_calls", 0)
        obj._verif_calls = k + 1
        if k >= FULL_PER_FILTER or n >= FULL_PER_TEST:
            counter["skipped"] += 1
            return False
        counter["per_test"][t] = n + 1
        return True

    def arr(a):
        return None if a is None else np.asarray(a, dtype=float).tolist()

    # ------------------------------------------------------------------ definitions ----
    def describe(ekf, state_model, calibration_map):
        params = {}
        d = {"state": [s.name for s in ekf.arglist_state], "control": [s.name for s in ekf.arglist_control],
             "calib": [s.name for s in ekf.arglist_calibration]}
        try:
            d["update"] = {s.name: _tree_with_params(state_model.state_model[s], params) for s in ekf.arglist_state}
            d["sensors"] = {str(k): {str(r): _tree_with_params(m.sensor_models[r], params) for r in m.readings}
                            for k, m in ekf.sensor_models.items()}
            d["supported"] = True
        except Exception as e:       # ssa.Unsupported and anything sympy-specific: no numeric oracle for this filter
            d["update"], d["sensors"], d["supported"], d["why"] = {}, {}, False, repr(e)[:200]
        d["readings"] = {str(k): [str(r) for r in m.readings] for k, m in ekf.sensor_models.items()}
        d["params"] = params
        d["calmap"] = {str(k): float(v) for k, v in (calibration_map or {}).items()}
        d["M"] = arr(ekf.process_noise)
        d["Q"] = {str(k): arr(q.data) for k, q in ekf.sensor_noises.items()}
        d["k"] = ekf.config.innovation_filtering
        return d

    orig_init = fp.ExtendedKalmanFilter.__init__

    def init(self, state_model, process_noise, sensor_models, sensor_noises, config, calibration_map=None):
        orig_init(self, state_model, process_noise, sensor_models, sensor_noises, config, calibration_map)
        try:
            counter["fid"] += 1
            self._verif_fid = counter["fid"]
            emit({"t": "filter", "fid": self._verif_fid, "test": test_id(), "def": describe(self, state_model, calibration_map)})
        except Exception as e:
            emit({"t": "recorder-error", "where": "init", "err": repr(e)[:300]})
    fp.ExtendedKalmanFilter.__init__ = init

    # ------------------------------------------------------------------------ calls ----
    orig_pm = fp.ExtendedKalmanFilter.process_model
    orig_sm = fp.ExtendedKalmanFilter.sensor_model

    def process_model(self, dt, state, covariance, control=None):
        if not hasattr(self, "_verif_fid") or not budget(self):
            return orig_pm(self, dt, state, covariance, control)
        well = isinstance(state, self.State) and isinstance(covariance, self.Covariance) and (control is None or isinstance(control, self.Control))
        rec = {"t": "call", "kind": "predict", "fid": self._verif_fid, "test": test_id(), "wellformed": bool(well)}
        if well:
            x0, P0 = state.data.copy(), covariance.data.copy()
            u0 = None if control is None else control.data.copy()
            try:
                rec.update(dt=float(dt), x=arr(x0), P=arr(P0), u=arr(u0))
            except Exception:
                rec["wellformed"] = well = False
        try:
            out = orig_pm(self, dt, state, covariance, control)
            rec["outcome"] = "ok"
            if well:
                rec.update(x2=arr(out.state.data), P2=arr(out.covariance.data),
                           fresh=bool(out.state is not state and out.covariance is not covariance and out.state.data is not state.data
                                      and out.covariance.data is not covariance.data))
            return out
        except AssertionError as e:
            rec["outcome"] = "refused"
            rec["detail"] = str(e)[:200]
            raise
        except BaseException as e:
            rec["outcome"] = "exception:" + type(e).__name__
            raise
        finally:
            if well:
                rec["kept"] = bool(np.array_equal(state.data, x0, equal_nan=True) and np.array_equal(covariance.data, P0, equal_nan=True)
                                   and (control is None or np.array_equal(control.data, u0, equal_nan=True)))
            emit(rec)

    def sensor_model(self, state, covariance, *, sensor_key, sensor_reading):
        if not hasattr(self, "_verif_fid") or not budget(self):
            return orig_sm(self, state, covariance, sensor_key=sensor_key, sensor_reading=sensor_reading)
        well = (isinstance(state, self.State) and isinstance(covariance, self.Covariance) and sensor_key in self.sensor_models
                and isinstance(sensor_reading, self.sensor_models[sensor_key].Reading))
        rec = {"t": "call", "kind": "update", "fid": self._verif_fid, "test": test_id(), "wellformed": bool(well), "key": str(sensor_key),
               "k": self.config.innovation_filtering}
        if well:
            x0, P0, z0 = state.data.copy(), covariance.data.copy(), sensor_reading.data.copy()
            rec.update(x=arr(x0), P=arr(P0), z=arr(z0))
        try:
            out = orig_sm(self, state, covariance, sensor_key=sensor_key, sensor_reading=sensor_reading)
            rec["outcome"] = "ok"
            if well:
                rec.update(x2=arr(out.state.data), P2=arr(out.covariance.data), same_obj=bool(out.state is state and out.covariance is covariance),
                           innov=arr(self.innovations.get(sensor_key)), S=arr(self.sensor_prediction_uncertainty.get(sensor_key)))
            return out
        except AssertionError as e:
            rec["outcome"] = "refused"
            rec["detail"] = str(e)[:200]
            raise
        except BaseException as e:
            rec["outcome"] = "exception:" + type(e).__name__
            raise
        finally:
            if well:
                rec["kept"] = bool(np.array_equal(state.data, x0, equal_nan=True) and np.array_equal(covariance.data, P0, equal_nan=True)
                                   and np.array_equal(sensor_reading.data, z0, equal_nan=True))
            emit(rec)
    fp.ExtendedKalmanFilter.process_model = process_model
    fp.ExtendedKalmanFilter.sensor_model = sensor_model

    # ------------------------------------------------------------ plain Model.model ----
    orig_minit = fp.Model.__init__
    orig_model = fp.Model.model

    def minit(self, symbolic_model, config, calibration_map=None):
        orig_minit(self, symbolic_model, config, calibration_map)
        try:
            counter["fid"] += 1
            self._verif_fid = counter["fid"]
            params = {}
            d = {"state": [s.name for s in self.arglist_state], "control": [s.name for s in self.arglist_control],
                 "calib": [s.name for s in self.arglist_calibration], "params": params,
                 "calmap": {str(k): float(v) for k, v in (calibration_map or {}).items()}}
            try:
                d["update"] = {s.name: _tree_with_params(symbolic_model.state_model[s], params) for s in self.arglist_state}
                d["supported"] = True
            except Exception as e:
                d["update"], d["supported"], d["why"] = {}, False, repr(e)[:200]
            emit({"t": "model", "fid": self._verif_fid, "test": test_id(), "def": d})
        except Exception as e:
            emit({"t": "recorder-error", "where": "minit", "err": repr(e)[:300]})

    def model(self, dt, state, control=None):
        if not hasattr(self, "_verif_fid") or not budget(self):
            return orig_model(self, dt, state, control)
        well = isinstance(state, self.State) and (control is None or isinstance(control, self.Control)) and isinstance(dt, float)
        rec = {"t": "call", "kind": "model", "fid": self._verif_fid, "test": test_id(), "wellformed": bool(well)}
        if well:
            x0 = state.data.copy()
            u0 = None if control is None else control.data.copy()
            try:
                rec.update(dt=float(dt), x=arr(x0), u=arr(u0))
            except Exception:
                rec["wellformed"] = well = False
        try:
            out = orig_model(self, dt, state, control)
            rec["outcome"] = "ok"
            if well:
                rec.update(x2=arr(out.data), fresh=bool(out is not state and out.data is not state.data))
            return out
        except BaseException as e:
            rec["outcome"] = "exception:" + type(e).__name__
            raise
        finally:
            if well:
                rec["kept"] = bool(np.array_equal(state.data, x0, equal_nan=True) and (control is None or np.array_equal(control.data, u0, equal_nan=True)))
            emit(rec)
    fp.Model.__init__ = minit
    fp.Model.model = model

    def unconfigure():
        emit({"t": "end", "skipped_over_budget": counter["skipped"]})
    config.add_cleanup(unconfigure)
