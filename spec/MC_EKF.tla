---- MODULE MC_EKF ----
(* constants shared by the filter configurations (C03-C07, C09, C13, C16) *)
EXTENDS Formak
SensShapes == {<<1>>, <<2>>, <<3>>, <<1, 2>>, <<2, 1>>, <<2, 2>>, <<1, 3>>, <<1, 1, 2>>}
cShapes == {[nS |-> a, nC |-> b, nK |-> c, sens |-> s] : a \in 1..3, b \in 0..2, c \in 0..2, s \in SensShapes}
cShapesNoSens == {[nS |-> a, nC |-> b, nK |-> c, sens |-> <<>>] : a \in 1..3, b \in 0..2, c \in 0..2}
cShapesAll == cShapes \cup cShapesNoSens
cShapesC12 == {[nS |-> a, nC |-> b, nK |-> c, sens |-> s] : a \in 1..2, b \in 0..2, c \in 0..1, s \in {<<>>, <<2>>, <<1, 2>>, <<1, 1, 2>>}}
cActsNone == {}
cShapesBig == {[nS |-> 3, nC |-> b, nK |-> c, sens |-> s] : b \in 1..2, c \in 0..1, s \in {<<3>>, <<2, 2>>, <<3, 2>>}}
cSyms == SymPool
cActsEval == {"ModelEval", "JacEval", "SensEval"}
cSensors == SensorPool
cReadings == ReadingPool
cOpsAll == {"add","sub","mul","div","neg","pow2","pow3","sin","cos","exp","tanh","atan","sqrt1","log1","tan","asinb","acosb"}
cOpsRat == {"add","sub","mul","div","neg","pow2"}
cConsts == <<RI(2), RQ(1,2), RI(-1), RI(3)>>
cVals == <<RI(1), RI(-2), RI(3), RI(-1), RI(2), RI(-3), RQ(1,2), RQ(-3,2), RQ(5,4)>>
cValsInt == <<RI(1), RI(-2), RI(3), RI(-1), RI(2), RI(0), RI(-3)>>
cDts == <<RQ(1,8), RQ(1,4), RQ(1,2), RI(1)>>
cDts2 == <<RQ(1,4), RQ(1,2)>>
cCalVals == <<RI(2), RI(-1), RQ(3,2), RI(-3)>>
cPNoise == <<RI(1), RI(2), RI(3), RQ(1,2)>>
cSNoise == <<RI(1), RI(3), RI(2), RI(5), RI(4)>>
cKsNone == {NoGate}
cKsAll == {NoGate, RI(1), RI(3), RI(5), RQ(1,2)}
cKsOn == {RI(1), RI(3), RI(5), RQ(1,2)}
cPDiag == <<1, 2, 3, 4>>
cPVec == <<1, 0, -1, 2>>
cZDeltas == <<RI(1), RI(-2), RQ(1,2), RI(5), RI(-9), RI(40), RI(0), RI(3)>>
cNoSeq == <<>>
cActsJac == {"JacEval", "SensEval"}
cActsPredict == {"SetEstimate", "Predict"}
cActsUpdate == {"SetEstimate", "Update"}
cActsAll == {"ModelEval", "JacEval", "SensEval", "SetEstimate", "Predict", "Update"}
cActsTransform == {"DefaultEstimate", "TransformRow"}
cZAbs == <<RI(1), RI(-2), RQ(1,2), RI(3), RI(0), RI(-1), RI(2), RQ(-3,2)>>
cShapesT == {[nS |-> a, nC |-> b, nK |-> c, sens |-> s] : a \in 1..2, b \in 0..2, c \in 0..1, s \in {<<1>>, <<2>>, <<1, 2>>, <<2, 1>>, <<1, 1, 2>>}}
cActsFilter == {"SetEstimate", "Predict", "Update"}
====
