-------------------------------- MODULE Expr --------------------------------
(***************************************************************************)
(* Expression trees, their exact evaluation and symbolic differentiation.  *)
(*                                                                         *)
(*   [op |-> "sym",   name |-> n]                                          *)
(*   [op |-> "const", val  |-> <<n,d>>]                                    *)
(*   [op |-> "add"|"sub"|"mul"|"div", l |-> e, r |-> e]                    *)
(*   [op |-> "neg", a |-> e]                                               *)
(*   [op |-> "pow", b |-> e, n |-> Int]                                    *)
(*   [op |-> "fn",  f |-> "sin"|"cos"|"exp"|..., a |-> e]                  *)
(*                                                                         *)
(* Eval is defined on the rational fragment (no "fn" node); for trees with *)
(* "fn" nodes the spec still determines the tree (and its derivative       *)
(* tree); their value is taken by the harness' reference interpreter       *)
(* (DESIGN 3.2).                                                           *)
(***************************************************************************)
EXTENDS Rational, TLC, FiniteSets

Sym(n)      == [op |-> "sym", name |-> n]
Const(q)    == [op |-> "const", val |-> q]
CI(i)       == Const(RI(i))
Bin(o, a, b) == [op |-> o, l |-> a, r |-> b]
Neg(a)      == [op |-> "neg", a |-> a]
Pow(b, n)   == [op |-> "pow", b |-> b, n |-> n]
Fn(f, a)    == [op |-> "fn", f |-> f, a |-> a]

BinOps == {"add", "sub", "mul", "div"}

IsZeroC(e) == e.op = "const" /\ e.val = Zero
IsOneC(e)  == e.op = "const" /\ e.val = One

RECURSIVE Eval(_, _)
Eval(e, env) ==
  CASE e.op = "sym"   -> env[e.name]
    [] e.op = "const" -> e.val
    [] e.op = "add"   -> RAdd(Eval(e.l, env), Eval(e.r, env))
    [] e.op = "sub"   -> RSub(Eval(e.l, env), Eval(e.r, env))
    [] e.op = "mul"   -> RMul(Eval(e.l, env), Eval(e.r, env))
    [] e.op = "div"   -> RDiv(Eval(e.l, env), Eval(e.r, env))
    [] e.op = "neg"   -> RNeg(Eval(e.a, env))
    [] e.op = "pow"   -> RPow(Eval(e.b, env), e.n)
    [] e.op = "fn"    -> Over       \* not evaluable by TLC

RECURSIVE IsRational(_)
IsRational(e) ==
  CASE e.op \in {"sym", "const"} -> TRUE
    [] e.op \in BinOps -> IsRational(e.l) /\ IsRational(e.r)
    [] e.op = "neg" -> IsRational(e.a)
    [] e.op = "pow" -> IsRational(e.b)
    [] e.op = "fn"  -> FALSE

RECURSIVE FreeSyms(_)
FreeSyms(e) ==
  CASE e.op = "sym"   -> {e.name}
    [] e.op = "const" -> {}
    [] e.op \in BinOps -> FreeSyms(e.l) \cup FreeSyms(e.r)
    [] e.op = "neg" -> FreeSyms(e.a)
    [] e.op = "pow" -> FreeSyms(e.b)
    [] e.op = "fn"  -> FreeSyms(e.a)

\* consistent renaming of symbols (rho: function on names; names outside its domain are kept)
RECURSIVE RenameExpr(_, _)
RenameExpr(e, rho) ==
  CASE e.op = "sym"   -> Sym(IF e.name \in DOMAIN rho THEN rho[e.name] ELSE e.name)
    [] e.op = "const" -> e
    [] e.op \in BinOps -> Bin(e.op, RenameExpr(e.l, rho), RenameExpr(e.r, rho))
    [] e.op = "neg" -> Neg(RenameExpr(e.a, rho))
    [] e.op = "pow" -> Pow(RenameExpr(e.b, rho), e.n)
    [] e.op = "fn"  -> Fn(e.f, RenameExpr(e.a, rho))

\* the symbol n measured in units c times larger: every occurrence of n becomes c * n
RECURSIVE ScaleSym(_, _, _)
ScaleSym(e, n, c) ==
  CASE e.op = "sym"   -> IF e.name = n THEN Bin("mul", CI(c), e) ELSE e
    [] e.op = "const" -> e
    [] e.op \in BinOps -> Bin(e.op, ScaleSym(e.l, n, c), ScaleSym(e.r, n, c))
    [] e.op = "neg" -> Neg(ScaleSym(e.a, n, c))
    [] e.op = "pow" -> Pow(ScaleSym(e.b, n, c), e.n)
    [] e.op = "fn"  -> Fn(e.f, ScaleSym(e.a, n, c))

RECURSIVE Size(_)
Size(e) ==
  CASE e.op \in {"sym", "const"} -> 1
    [] e.op \in BinOps -> 1 + Size(e.l) + Size(e.r)
    [] e.op = "neg" -> 1 + Size(e.a)
    [] e.op = "pow" -> 1 + Size(e.b)
    [] e.op = "fn"  -> 1 + Size(e.a)

\* light constructors that fold the trivial cases, so derivative trees stay small
SAdd(a, b) == IF IsZeroC(a) THEN b ELSE IF IsZeroC(b) THEN a ELSE Bin("add", a, b)
SSub(a, b) == IF IsZeroC(b) THEN a ELSE IF IsZeroC(a) THEN Neg(b) ELSE Bin("sub", a, b)
SMul(a, b) == IF IsZeroC(a) \/ IsZeroC(b) THEN CI(0)
              ELSE IF IsOneC(a) THEN b ELSE IF IsOneC(b) THEN a ELSE Bin("mul", a, b)
SNeg(a)    == IF IsZeroC(a) THEN a ELSE Neg(a)

(***************************************************************************)
(* Symbolic derivative.  NOTE: SMul(0, x) folds to 0 even where x is       *)
(* undefined; derivative values are therefore only compared at points      *)
(* where the ORIGINAL expression (and hence every sub-expression) is       *)
(* defined -- see FilterMath!DefinedAt.                                    *)
(***************************************************************************)
RECURSIVE Diff(_, _)
Diff(e, s) ==
  CASE e.op = "sym"   -> IF e.name = s THEN CI(1) ELSE CI(0)
    [] e.op = "const" -> CI(0)
    [] e.op = "add"   -> SAdd(Diff(e.l, s), Diff(e.r, s))
    [] e.op = "sub"   -> SSub(Diff(e.l, s), Diff(e.r, s))
    [] e.op = "mul"   -> SAdd(SMul(Diff(e.l, s), e.r), SMul(e.l, Diff(e.r, s)))
    [] e.op = "div"   -> LET dl == Diff(e.l, s)  dr == Diff(e.r, s) IN
                         IF IsZeroC(dr) THEN (IF IsZeroC(dl) THEN CI(0) ELSE Bin("div", dl, e.r))
                         ELSE Bin("div", SSub(SMul(dl, e.r), SMul(e.l, dr)), Pow(e.r, 2))
    [] e.op = "neg"   -> SNeg(Diff(e.a, s))
    [] e.op = "pow"   -> IF e.n = 0 THEN CI(0)
                         ELSE SMul(SMul(CI(e.n), IF e.n = 1 THEN CI(1) ELSE Pow(e.b, e.n - 1)), Diff(e.b, s))
    [] e.op = "fn"    ->
         LET da == Diff(e.a, s) IN
         IF IsZeroC(da) THEN CI(0) ELSE
         CASE e.f = "sin"  -> SMul(Fn("cos", e.a), da)
           [] e.f = "cos"  -> SMul(SNeg(Fn("sin", e.a)), da)
           [] e.f = "exp"  -> SMul(Fn("exp", e.a), da)
           [] e.f = "tanh" -> SMul(Bin("sub", CI(1), Pow(Fn("tanh", e.a), 2)), da)
           [] e.f = "atan" -> Bin("div", da, Bin("add", CI(1), Pow(e.a, 2)))
           [] e.f = "sqrt" -> Bin("div", da, Bin("mul", CI(2), Fn("sqrt", e.a)))
           [] e.f = "log"  -> Bin("div", da, e.a)
           [] e.f = "tan"  -> SMul(Bin("add", CI(1), Pow(Fn("tan", e.a), 2)), da)
           [] e.f = "asin" -> Bin("div", da, Fn("sqrt", Bin("sub", CI(1), Pow(e.a, 2))))
           [] e.f = "acos" -> SNeg(Bin("div", da, Fn("sqrt", Bin("sub", CI(1), Pow(e.a, 2)))))

(***************************************************************************)
(* Straight-line SSA programs (the result of common-subexpression          *)
(* elimination): prefix = sequence of <<tmpName, expr>>, outs = sequence   *)
(* of exprs.                                                               *)
(***************************************************************************)
RECURSIVE EnvAfter(_, _)
EnvAfter(prefix, env) ==
  IF prefix = <<>> THEN env
  ELSE LET t == Head(prefix)
       IN EnvAfter(Tail(prefix), (t[1] :> Eval(t[2], env)) @@ env)

EvalProg(prefix, outs, env) ==
  LET e2 == EnvAfter(prefix, env) IN [i \in DOMAIN outs |-> Eval(outs[i], e2)]

\* every temporary assigned once, from inputs and EARLIER temporaries only;
\* outputs use inputs and temporaries only
WellFormedSSA(inputs, prefix, outs) ==
  /\ \A i \in DOMAIN prefix :
        /\ prefix[i][1] \notin inputs
        /\ \A j \in DOMAIN prefix : j # i => prefix[j][1] # prefix[i][1]
        /\ FreeSyms(prefix[i][2]) \subseteq inputs \cup {prefix[j][1] : j \in 1..(i-1)}
  /\ \A k \in DOMAIN outs :
        FreeSyms(outs[k]) \subseteq inputs \cup {prefix[j][1] : j \in DOMAIN prefix}
=============================================================================
