#!/bin/sh
# usage: try_seed_wt.sh <worktree> <patch.diff> <tier> <PROP> [<PROP> ...]
# Like try_seed.sh, but applies the change in a scratch worktree (VERIF_REPO) so /repo is never touched -- for use while
# other checks are running against /repo.  Evidence written by these runs is scratch (VERIF_EVIDENCE_DIR).
wt=$1; patch=$2; tier=$3; shift 3
cd "$wt" || exit 2
git checkout -q -- py cpp
if ! git apply --check "$patch" 2>/dev/null; then echo "patch does not apply: $patch"; exit 2; fi
git apply "$patch"
trap 'git -C "$wt" checkout -q -- py cpp' EXIT INT TERM
ev=$(mktemp -d /tmp/seed-evidence.XXXXXX)
for p in "$@"; do
  out=$(cd /verif && VERIF_REPO="$wt" VERIF_EVIDENCE_DIR="$ev" ./check $p --tier $tier 2>/dev/null)
  rc=$?
  n=$(printf '%s\n' "$out" | grep -c '^VIOLATION')
  first=$(printf '%s\n' "$out" | grep -A1 '^VIOLATION' | sed -n 2p | cut -c1-220)
  echo "RESULT $p exit=$rc violations=$n $first"
done
rm -rf "$ev"
