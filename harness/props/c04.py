"""C04 -- prediction step is x' = f(x,u), P' = G P G^T + V M V^T."""
import copy
import json

import cppcheck
import numeric
import scen
from build import named


REPO_ASSUME = ("thorough tier: every model / filter call the repository's own test-suite executes is recorded (pytest plugin, /repo untouched), "
               "projected against the Jacobian trees Derive.tla derives from the recorded definition, and validated by EKFCalls_Trace.tla")


def _scale_sym(t, name, C):
    op = t["op"]
    if op == "sym":
        return {"op": "mul", "l": {"op": "const", "val": [C, 1]}, "r": t} if t["name"] == name else t
    if op == "const":
        return t
    if op in ("add", "sub", "mul", "div"):
        return {"op": op, "l": _scale_sym(t["l"], name, C), "r": _scale_sym(t["r"], name, C)}
    if op == "neg":
        return {"op": "neg", "a": _scale_sym(t["a"], name, C)}
    if op == "pow":
        return {"op": "pow", "b": _scale_sym(t["b"], name, C), "n": t["n"]}
    return {"op": "fn", "f": t["f"], "a": _scale_sym(t["a"], name, C)}


def rescaled_control_twin(s, c_log2=20):
    """the same behaviour with the first control measured in units 2^c_log2 times larger: the update expressions read C*u0,
    the control values shrink by C and the noise variance by C^2 (to ~1e-12); the spec (InvRescaleControl, checked exactly by
    TLC with C = 4) says every predicted state and covariance stays the same"""
    d0 = s["def"]
    if not d0["control"]:
        return None
    t = copy.deepcopy({k: v for k, v in s.items() if not k.startswith("_")})
    d = t["def"]
    C = 2 ** c_log2
    c0 = sorted(d["control"])[0]
    d["update"] = {n: _scale_sym(tr, c0, C) for n, tr in named(d["update"]).items()}
    q = d["pnoise"][c0]
    d["pnoise"][c0] = [q[0], q[1] * C * C]
    for st in t["steps"]:
        u = named(st.get("u") or {}) or {}
        if c0 in u:
            st["u"][c0] = [u[c0][0], u[c0][1] * C]
        st.pop("V", None)          # the control Jacobian lives on the scaled axis
        st.pop("Vt", None)
    t["steps"] = [st for st in t["steps"] if st["act"] in ("SetEstimate", "Predict")]
    t["_id"] = s.get("_id", "") + "-rescaled-control"
    return t


def _post(ctx, scns, results):
    twins = [t for t in (rescaled_control_twin(s) for s in scns) if t is not None]
    r = scen.replay_all(ctx, twins, cse_settings=(False,), force_ekf=True)
    c = scen.record_results(ctx, r, key_prefix="rescaled-control:")
    # the same prediction histories in the generated C++ filter (one filter object, dt values repeat while state and control
    # change): behaviours with a control and at least two predictions with the same dt first
    def repeats(s_):
        dts = [json.dumps(st["dt"]) for st in s_["steps"] if st["act"] == "Predict"]
        return bool(s_["def"]["control"]) and len(dts) - len(set(dts)) >= 1
    mix = [s_ for s_ in scns if str(s_.get("_id", "")).endswith(":mix") and repeats(s_)]
    rest = [s_ for s_ in scns if repeats(s_) and s_ not in mix]
    pick = (mix + rest)[: (8 if ctx.quick else 120)]
    rc = cppcheck.replay_cpp(ctx, pick, cse_settings=(True,), kind="ekf")
    k = cppcheck.record(ctx, rc, key_prefix="cpp:")
    return {"rescaled_control_twins": len(twins), "rescaled_control": c, "cpp": k}


def run(ctx):
    return numeric.run_numeric(
        ctx, sim=("MC_EKF", "MC_C04_sim.cfg"), sim_num_quick=96, sim_num_thorough=2400, post=_post,
        rule="behaviour = definition + SetEstimate/Predict sequence; each Predict compares state and covariance by name with "
             "TLC's exact G P G^T + V M V^T, checks that the inputs were not modified and that repeating the call is identical; "
             "every behaviour with a control is replayed again with that control measured in units 2^20 times larger (noise variance ~1e-12)",
        scope="simulation: 1-3 states, 0-2 controls (distinct per-control noise), 0-2 calibrations, rational fragment, SPD integer covariances D + v v^T",
        assumptions=numeric.BASE_ASSUME + [REPO_ASSUME], repo_tests=True, extra_sims=[(("MC_EKF", "MC_C04mix_sim.cfg"), 24)])


def replay(ctx, path):
    return numeric.replay_file(ctx, path)
