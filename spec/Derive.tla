------------------------------- MODULE Derive -------------------------------
(***************************************************************************)
(* Derivation service for recorded executions (DESIGN 9.7).                *)
(*                                                                         *)
(* The input file is a sequence of definitions recorded from filters the   *)
(* repository's own tests built: [id, def] with def.state / def.control    *)
(* (sequences of names), def.update (name -> Expr tree) and def.sensors    *)
(* (key -> reading -> Expr tree).  Constants that are not small rationals  *)
(* arrive as parameters K_n -- symbols that are not states, so their       *)
(* derivative is 0 and the harness binds their value when it evaluates.    *)
(*                                                                         *)
(* For every definition the specification prints, BY NAME, the trees of    *)
(*   G[r][c] = d update[r] / d c      r, c states                          *)
(*   V[r][c] = d update[r] / d c      r state, c control                   *)
(*   H[k][r][c] = d sensors[k][r] / d c                                    *)
(* i.e. exactly what FilterMath!ProcJac / CtrlJac / SensJac evaluate.      *)
(* The harness evaluates them in floating point at the recorded inputs and *)
(* folds them with the recorded covariance: the oracle for x', P' of every *)
(* recorded call (EKFCalls_Trace.tla judges the resulting events).         *)
(***************************************************************************)
EXTENDS Expr, Json, IOUtils, TLCExt, Sequences

Defs == JsonDeserialize(IOEnv.TRACE_FILE)
VARIABLE i

SeqSet(s) == {s[j] : j \in DOMAIN s}

Jacs(d) ==
  LET S == SeqSet(d.state)  C == SeqSet(d.control) IN
  [G |-> [r \in S |-> [c \in S |-> Diff(d.update[r], c)]],
   V |-> [r \in S |-> [c \in C |-> Diff(d.update[r], c)]],
   H |-> [k \in DOMAIN d.sensors |-> [r \in DOMAIN d.sensors[k] |-> [c \in S |-> Diff(d.sensors[k][r], c)]]]]

Init == i = 1
Next == /\ i <= Len(Defs)
        /\ PrintT(ToJson([id |-> Defs[i].id, jac |-> Jacs(Defs[i].def)]))
        /\ i' = i + 1
Spec == Init /\ [][Next]_i
=============================================================================
