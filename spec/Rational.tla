------------------------------ MODULE Rational ------------------------------
(***************************************************************************)
(* Exact rational arithmetic for TLC.                                      *)
(*                                                                         *)
(* A rational is a pair <<n, d>> with d > 0 and gcd(|n|, d) = 1.           *)
(* Two sentinels with d = 0:                                               *)
(*   Undef = <<0,0>>  the value is not defined here (division by zero);    *)
(*   Over  = <<1,0>>  the value left the window in which TLC's 32-bit      *)
(*                    integers are guaranteed not to overflow.  "Over"     *)
(*                    carries no verdict: scenarios that touch it are      *)
(*                    excluded by a CONSTRAINT of the state machines.      *)
(* Every operator first checks that both operands fit in [-RB, RB] for     *)
(* numerator and denominator; then every intermediate product is at most   *)
(* 2*RB*RB < 2^31, so TLC can never overflow inside this module.           *)
(***************************************************************************)
EXTENDS Integers, Sequences

RB == 30000

AbsI(x) == IF x < 0 THEN -x ELSE x
SgnI(x) == IF x < 0 THEN -1 ELSE IF x > 0 THEN 1 ELSE 0

RECURSIVE GcdP(_, _)
GcdP(a, b) == IF b = 0 THEN a ELSE GcdP(b, a % b)   \* TLC: 2nd arg of % must be > 0
Gcd(a, b) == GcdP(AbsI(a), AbsI(b))

Undef == <<0, 0>>
Over  == <<1, 0>>
IsBad(q)   == q[2] = 0
IsUndef(q) == q = Undef
IsOver(q)  == q = Over
Fits(q)    == q[2] > 0 /\ AbsI(q[1]) <= RB /\ q[2] <= RB

\* normalise n/d with d # 0, |n|,|d| < 2^31
Norm(n, d) ==
  IF n = 0 THEN <<0, 1>>
  ELSE LET g == Gcd(n, d)
           s == IF d < 0 THEN -1 ELSE 1
       IN <<s * (n \div g), s * (d \div g)>>

\* combine sentinels: Over dominates (nothing is known), then Undef
Sent2(a, b) == IF IsOver(a) \/ IsOver(b) THEN Over
               ELSE IF IsUndef(a) \/ IsUndef(b) THEN Undef
               ELSE Over   \* some operand does not fit the window

Ok2(a, b) == Fits(a) /\ Fits(b)

RI(i)  == <<i, 1>>
RQ(n, d) == Norm(n, d)
Zero == <<0, 1>>
One  == <<1, 1>>

RAdd(a, b) == IF Ok2(a, b) THEN Norm(a[1] * b[2] + b[1] * a[2], a[2] * b[2]) ELSE Sent2(a, b)
RSub(a, b) == IF Ok2(a, b) THEN Norm(a[1] * b[2] - b[1] * a[2], a[2] * b[2]) ELSE Sent2(a, b)
RMul(a, b) == IF Ok2(a, b) THEN Norm(a[1] * b[1], a[2] * b[2]) ELSE Sent2(a, b)
RDiv(a, b) == IF Ok2(a, b)
              THEN IF b[1] = 0 THEN Undef ELSE Norm(a[1] * b[2], a[2] * b[1])
              ELSE Sent2(a, b)
RNeg(a)    == IF Fits(a) THEN <<-a[1], a[2]>> ELSE IF IsBad(a) THEN a ELSE Over
RAbs(a)    == IF Fits(a) THEN <<AbsI(a[1]), a[2]>> ELSE IF IsBad(a) THEN a ELSE Over

RECURSIVE RPow(_, _)
RPow(a, n) == IF n = 0 THEN (IF IsBad(a) THEN a ELSE One)
              ELSE IF n > 0 THEN RMul(a, RPow(a, n - 1))
              ELSE RDiv(One, RPow(a, -n))

\* comparisons cross-multiply: callers must make sure both operands Fit the window
RLess(a, b) == a[1] * b[2] < b[1] * a[2]
RLeq(a, b)  == a[1] * b[2] <= b[1] * a[2]
RSign(a)    == SgnI(a[1])
RIsZero(a)  == a[1] = 0 /\ a[2] # 0

RMax(a, b) == IF RLess(a, b) THEN b ELSE a
=============================================================================
