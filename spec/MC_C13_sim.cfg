INIT Init
NEXT Next
CONSTANTS
  Shapes <- cShapes
  SymNames <- cSymsCluster
  NameSeq <- cNoSeq
  SensorNames <- cSensors
  ReadingNames <- cReadings
  Ops <- cOpsRat
  Consts <- cConsts
  MinGrow = 2
  MaxGrow = 5
  NPoints = 2
  Vals <- cValsInt
  Dts <- cDts
  CalVals <- cCalVals
  PNoiseVals <- cPNoise
  SNoiseVals <- cSNoise
  Ks <- cKsAll
  PDiag <- cPDiag
  PVec <- cPVec
  ZDeltas <- cZDeltas
  Acts <- cActsAll
  MinSteps = 3
  MaxSteps = 6
  RationalOnly = TRUE
  Twins = TRUE
  SetOnce = FALSE
  Chain = FALSE
  NeedDt = FALSE
  BindLeaves = TRUE
  EmitOn = TRUE
INVARIANT InvRenaming
INVARIANT InvCovValid
INVARIANT InvUpdate
INVARIANT InvReject
INVARIANT InvNisNonNeg
INVARIANT InvSPD
CHECK_DEADLOCK FALSE
