---- MODULE MC_MF_E ----
EXTENDS ManagedFilter
cTimes == -3..3
cMaxDts == {1, 2, 3}
cKeys == {"k1"}
====
