INIT Init
NEXT Next
CONSTANTS
  Shapes <- cShapesT
  SymNames <- cSyms
  NameSeq <- cNoSeq
  SensorNames <- cSensors
  ReadingNames <- cReadings
  Ops <- cOpsRat
  Consts <- cConsts
  MinGrow = 2
  MaxGrow = 3
  NPoints = 2
  Vals <- cValsInt
  Dts <- cDts
  CalVals <- cCalVals
  PNoiseVals <- cPNoise
  SNoiseVals <- cSNoise
  Ks <- cKsAll
  PDiag <- cPDiag
  PVec <- cPVec
  ZDeltas <- cZAbs
  Acts <- cActsTransform
  MinSteps = 3
  MaxSteps = 4
  RationalOnly = TRUE
  Twins = FALSE
  SetOnce = FALSE
  Chain = FALSE
  NeedDt = FALSE
  BindLeaves = TRUE
  EmitOn = TRUE
INVARIANT InvCovValid
INVARIANT InvUpdate
INVARIANT InvReject
INVARIANT InvNisNonNeg
INVARIANT InvSPD
CHECK_DEADLOCK FALSE
