"""C05 -- sensor update is the Kalman correction, for any number of readings."""
import numeric


def run(ctx):
    return numeric.run_numeric(
        ctx, sim=("MC_EKF", "MC_C05_sim.cfg"), sim_num_quick=96, sim_num_thorough=2400,
        rule="behaviour = definition + SetEstimate/Update sequence (innovation filtering disabled); state, covariance, recorded "
             "innovation and innovation covariance compared by name with TLC's exact Kalman correction; TLC also checks on every "
             "state: z = h(x) => x' = x, P' symmetric PSD, P - P' PSD, S symmetric PD",
        scope="simulation: 1-3 states, 1-3 sensors of 1-3 readings with unequal per-reading noise, calibration present, rational fragment",
        assumptions=numeric.BASE_ASSUME)


def replay(ctx, path):
    return numeric.replay_file(ctx, path)
