"""Task functions executed inside pool workers (first argument: dict of formak modules)."""
import pyrep


def py_replay(mods, scn, cse, presentation=None, force_ekf=False, keep_trace=False):
    r = pyrep.replay(scn, mods["ui"], mods["python"], cse=cse, presentation=presentation, force_ekf=force_ekf)
    return {"mismatches": [dict(m) for m in r.mismatches], "values": r.values, "steps": r.steps,
            "skipped": r.skipped, "trace": r.trace if keep_trace else None}


def mf_replay_batch(mods, scns):
    import mfrep
    out = []
    for i, s in enumerate(scns):
        # every third history happens 2^20 s (12 days) later on the time axis
        out.append(mfrep.replay(mods, s, offset=(2.0 ** 20 if i % 3 == 2 else 0.0)))
    return out


def cpp_generate(mods, scn, cse, outdir, kind="ekf", presentation=None, via_entry=False):
    import cpprep
    return cpprep.generate_task(mods, scn, cse, outdir, kind=kind, presentation=presentation, via_entry=via_entry)


def mf_decimal_batch(mods, scns, unit):
    import mfcheck
    return mfcheck.decimal_python(mods, scns, unit)


def mf_long_batch(mods, moves, unit):
    import mfcheck
    return mfcheck.long_moves_python(mods, moves, unit)
