INIT Init
NEXT Next
CONSTANTS
  Shapes <- cShapesBig
  SymNames <- cSyms
  NameSeq <- cNoSeq
  SensorNames <- cSensors
  ReadingNames <- cReadings
  Ops <- cOpsAll
  Consts <- cConsts
  MinGrow = 12
  MaxGrow = 15
  NPoints = 2
  Vals <- cVals
  Dts <- cDts
  CalVals <- cCalVals
  PNoiseVals <- cPNoise
  SNoiseVals <- cSNoise
  Ks <- cKsNone
  PDiag <- cPDiag
  PVec <- cPVec
  ZDeltas <- cZDeltas
  Acts <- cActsEval
  MinSteps = 3
  MaxSteps = 8
  RationalOnly = FALSE
  Twins = FALSE
  SetOnce = FALSE
  Chain = TRUE
  NeedDt = FALSE
  BindLeaves = FALSE
  EmitOn = TRUE
INVARIANT InvCovValid
INVARIANT InvUpdate
INVARIANT InvReject
INVARIANT InvNisNonNeg
INVARIANT InvSPD
CHECK_DEADLOCK FALSE
