"""spec -> code replay into the C++ FormaK generates (DESIGN 3.2).

For a scenario: FormaK renders header + source (through the library's own code generator), this
module writes a driver that sets every input BY FIELD NAME (Options structs / accessors), calls the
generated functions and prints every named output with %.17g; g++ builds it against the Eigen
stand-in and the real cpp/include headers; the printed values are compared with the spec's.

The row/column <-> name map of every C++ matrix is PROBED from the generated code itself at run
time (set one named field through its accessor / Options member, see which data(i, 0) changed).
"""
import os
import sys
import traceback

from build import Definition, make_ui_model, ekf_args, named, fl, is_rat, BY_HARNESS

NS = "gen"


def render(mods, d, cse, outdir, kind="ekf", presentation=None, via_entry=False, max_dt=None):
    """Generate header/source for definition d into outdir/generated/formak/gen.{h,cpp}.
    Returns (header_path, source_path).  via_entry: go through cpp.compile / cpp.compile_ekf
    (sys.argv patched) instead of the internal generator functions."""
    ui, cpp = mods["ui"], mods["cpp"]
    from build import resolve_presentation
    pres = resolve_presentation(presentation, d)
    model, symtab = make_ui_model(d, ui, container=pres.get("container", set), order=pres.get("order"),
                                  as_string=pres.get("as_string", False), proactive_simplify=pres.get("proactive_simplify", False))
    pn, sm, sn, cm = ekf_args(d, symtab, order=pres.get("order"), variety=pres.get("variety"))
    gdir = os.path.join(outdir, "generated", "formak")
    os.makedirs(gdir, exist_ok=True)
    header = os.path.join(gdir, "gen.h")
    source = os.path.join(gdir, "gen.cpp")
    cfg = {"common_subexpression_elimination": bool(cse)}
    gate = d.gate()
    cfg["innovation_filtering"] = gate if gate is not None else 0.0   # cpp.Config: 0.0 / None disables
    if max_dt is not None:
        cfg["max_dt_sec"] = max_dt
    if via_entry:
        argv = sys.argv
        sys.argv = ["generator.py", "--header", header, "--source", source, "--namespace", NS]
        try:
            # the configuration as the dict it is, or as the equivalent cpp.Config object
            cfg_arg = cpp.Config(**cfg) if (len(str(outdir)) % 2 == 0) else cfg
            if kind == "ekf":
                res = cpp.compile_ekf(model, process_noise=pn, sensor_models=sm, sensor_noises=sn,
                                      calibration_map=cm, config=cfg_arg)
            else:
                res = cpp.compile(model, calibration_map=cm, config=cfg_arg)
        finally:
            sys.argv = argv
        if not res.success:
            raise RuntimeError("cpp.compile returned success=False")
        return header, source
    if kind == "ekf":
        gen = cpp._generate_ekf_function_bodies(header, NS, model, pn, sm, sn, cm, cfg)
    else:
        gen = cpp._generate_model_function_bodies(header, NS, model, cm, cfg)
    with open(header, "w") as fh:
        fh.write("\n".join(cpp.header_from_ast(generator=gen)))
    with open(source, "w") as fh:
        fh.write("\n".join(cpp.source_from_ast(generator=gen)))
    return header, source


def lit(x):
    """exact C++ double literal"""
    return float(x).hex()


class Driver:
    """Builds the text of a driver program for one scenario."""

    def __init__(self, d, kind="ekf"):
        self.d = d
        self.kind = kind
        self.lines = []
        self.has_cal = bool(d.calib)
        self.has_ctl = bool(d.control)

    def typename(self, key):
        return key.title()

    def prelude(self):
        d = self.d
        L = self.lines
        L.append('#include <formak/gen.h>')
        L.append('#include <cstdio>')
        L.append('#include <cmath>')
        L.append('#include <optional>')
        L.append('using namespace %s;' % NS)
        L.append('static void pv(int step, const char* what, const char* name, double v) { std::printf("V %d %s %s %.17g\\n", step, what, name, v); }')
        L.append('static void pm(int step, const char* what, const char* r, const char* c, double v) { std::printf("M %d %s %s %s %.17g\\n", step, what, r, c, v); }')
        # probes: which row does a named field live in
        L.append('template <typename T, typename F> static int probe(F set) { T t; set(t); int found = -1; int n = 0;'
                 ' for (int i = 0; i < (int)T::rows; ++i) { if (t.data(i, 0) == 1.0) { found = i; ++n; } }'
                 ' if (n != 1) { std::printf("E probe\\n"); return -1; } return found; }')
        L.append('int main() {')
        for n in d.state:
            L.append('  const int iS_%s = probe<State>([](State& s) { s.%s() = 1.0; });' % (n, n))
        for n in d.control:
            L.append('  const int iU_%s = probe<Control>([](Control& s) { s.%s() = 1.0; });' % (n, n))
        if self.kind == "ekf":
            for key in sorted(d.sensors):
                T = self.typename(key)
                for r in sorted(d.sensors[key]):
                    L.append('  int iR_%s_%s = -1; { %sOptions o; o.%s = 1.0; %s rd(o); int n = 0; for (int i = 0; i < (int)%s::size; ++i)'
                             ' { if (rd.data(i, 0) == 1.0) { iR_%s_%s = i; ++n; } } if (n != 1) std::printf("E probe\\n"); }'
                             % (T, r, T, r, T, T, T, r))
        # published layout: row of every named field, and the SensorId order
        for n in d.state:
            L.append('  std::printf("L state %s %%d\\n", iS_%s);' % (n, n))
        for n in d.control:
            L.append('  std::printf("L control %s %%d\\n", iU_%s);' % (n, n))
        if self.kind == "ekf":
            for key in sorted(d.sensors):
                L.append('  std::printf("L sensor %s %%d\\n", (int)SensorId::%s);' % (key, key.upper()))
                for r in sorted(d.sensors[key]):
                    L.append('  std::printf("L reading:%s %s %%d\\n", iR_%s_%s);' % (key, r, self.typename(key), r))
        if self.has_cal:
            L.append('  CalibrationOptions calo;')
            for c in d.calib:
                L.append('  calo.%s = %s;' % (c, lit(fl(d.calmap[c]))))
            L.append('  Calibration cal(calo);')
            for c in d.calib:      # Options constructor and accessor must agree (C13)
                L.append('  if (cal.%s() != %s) std::printf("E calibration-accessor %s\\n");' % (c, lit(fl(d.calmap[c])), c))
        if self.kind == "ekf":
            # the configuration constants compiled into the filter, bit for bit
            L.append('  std::printf("C innovation_filtering %a\\n", (double)cpp::Config::innovation_filtering);')
            L.append('  std::printf("C max_dt_sec %a\\n", (double)cpp::Config::max_dt_sec);')
            L.append('  ExtendedKalmanFilter ekf;')
            L.append('  StateAndVariance est;')
            # a second filter object of the same generated type: whatever it is given must never show in the first (the
            # specification's filter state -- estimate, stored innovations -- is per object)
            L.append('  ExtendedKalmanFilter ghost;')
            for key in sorted(d.sensors):
                T = self.typename(key)
                L.append('  std::optional<typename %s::InnovationT> last_%s;' % (T, T))
        else:
            L.append('  Model model;')

    def args(self, first):
        a = [first]
        if self.has_cal:
            a.append("cal")
        if self.has_ctl:
            a.append("ctl")
        return ", ".join(a)

    def rargs(self, first, reading):
        a = [first]
        if self.has_cal:
            a.append("cal")
        a.append(reading)
        return ", ".join(a)

    def set_state(self, var, x, i):
        L = self.lines
        L.append('  StateOptions so%d;' % i)
        for n, v in x.items():
            L.append('  so%d.%s = %s;' % (i, n, lit(v)))
        L.append('  State %s(so%d);' % (var, i))
        for n, v in x.items():
            L.append('  if (%s.%s() != %s) std::printf("E state-accessor %s\\n");' % (var, n, lit(v), n))

    def set_control(self, var, u, i):
        L = self.lines
        if not self.has_ctl:
            return
        L.append('  ControlOptions uo%d;' % i)
        for n, v in u.items():
            L.append('  uo%d.%s = %s;' % (i, n, lit(v)))
        L.append('  Control %s(uo%d);' % (var, i))

    def print_state(self, i, what, expr):
        for n in self.d.state:
            self.lines.append('  pv(%d, "%s", "%s", %s.%s());' % (i, what, n, expr, n))

    def print_cov(self, i, what, expr):
        for r in self.d.state:
            for c in self.d.state:
                self.lines.append('  pm(%d, "%s", "%s", "%s", %s.data(iS_%s, iS_%s));' % (i, what, r, c, expr, r, c))
        # diagonal accessors must alias the same entries
        for r in self.d.state:
            self.lines.append('  if (%s.%s() != %s.data(iS_%s, iS_%s)) std::printf("E covariance-accessor %s\\n");' % (expr, r, expr, r, r, r))

    def step(self, i, st):
        d = self.d
        L = self.lines
        act = st["act"]
        L.append('  { // step %d %s' % (i, act))
        if act in ("ModelEval", "JacEval"):
            x = {n: fl(q) for n, q in named(st["x"]).items()}
            u = {n: fl(q) for n, q in named(st["u"]).items()}
            self.set_state("s", x, i)
            self.set_control("ctl", u, i)
            dt = lit(fl(st["dt"]))
            if self.kind == "ekf":
                L.append('  StateAndVariance sv; sv.state = s;')
                first = "sv"
                pmodel = "ExtendedKalmanFilterProcessModel::"
            else:
                first = "s"
                pmodel = "model."
            if act == "ModelEval":
                L.append('  State out = %smodel(%s);' % (pmodel, self.args(dt + ", " + first)))
                self.print_state(i, "xn", "out")
            else:
                L.append('  auto G = ExtendedKalmanFilterProcessModel::process_jacobian(%s);' % self.args(dt + ", sv"))
                for r in d.state:
                    for c in d.state:
                        L.append('  pm(%d, "G", "%s", "%s", G(iS_%s, iS_%s));' % (i, r, c, r, c))
                L.append('  auto V = ExtendedKalmanFilterProcessModel::control_jacobian(%s);' % self.args(dt + ", sv"))
                for r in d.state:
                    for c in d.control:
                        L.append('  pm(%d, "V", "%s", "%s", V(iS_%s, iU_%s));' % (i, r, c, r, c))
                L.append('  auto Mn = ExtendedKalmanFilterProcessModel::covariance(%s);' % self.args(dt + ", sv"))
                for r in d.control:
                    for c in d.control:
                        L.append('  pm(%d, "M", "%s", "%s", Mn(iU_%s, iU_%s));' % (i, r, c, r, c))
        elif act == "SensEval":
            key = st["key"]
            T = self.typename(key)
            x = {n: fl(q) for n, q in named(st["x"]).items()}
            self.set_state("s", x, i)
            L.append('  StateAndVariance sv; sv.state = s; %s rd;' % T)
            L.append('  %s h = %sSensorModel::model(%s);' % (T, T, self.rargs("sv", "rd")))
            for r in sorted(d.sensors[key]):
                L.append('  pv(%d, "h", "%s", h.data(iR_%s_%s, 0));' % (i, r, T, r))
                L.append('  if (h.%s() != h.data(iR_%s_%s, 0)) std::printf("E reading-accessor %s\\n");' % (r, T, r, r))
            L.append('  auto H = %sSensorModel::jacobian(%s);' % (T, self.rargs("sv", "rd")))
            for r in sorted(d.sensors[key]):
                for c in d.state:
                    L.append('  pm(%d, "H", "%s", "%s", H(iR_%s_%s, iS_%s));' % (i, r, c, T, r, c))
            L.append('  auto Q = %sSensorModel::covariance(%s);' % (T, self.rargs("sv", "rd")))
            for r in sorted(d.sensors[key]):
                for c in sorted(d.sensors[key]):
                    L.append('  pm(%d, "Q", "%s", "%s", Q(iR_%s_%s, iR_%s_%s));' % (i, r, c, T, r, T, c))
        elif act == "SetEstimate":
            x = {n: fl(q) for n, q in named(st["x"]).items()}
            self.set_state("s", x, i)
            L.append('  est.state = s;')
            for r in d.state:
                for c in d.state:
                    L.append('  est.covariance.data(iS_%s, iS_%s) = %s;' % (r, c, lit(fl(st["P"][r][c]))))
        elif act == "Predict":
            u = {n: fl(q) for n, q in named(st["u"]).items()}
            self.set_control("ctl", u, i)
            L.append('  StateAndVariance before = est;')
            L.append('  StateAndVariance nxt = ekf.process_model(%s);' % self.args(lit(fl(st["dt"])) + ", est"))
            L.append('  if (!(before.state.data == est.state.data) || !(before.covariance.data == est.covariance.data)) std::printf("E inputs-modified\\n");')
            L.append('  est = nxt;')
            self.print_state(i, "x", "est.state")
            self.print_cov(i, "P", "est.covariance")
        elif act == "Update":
            key = st["key"]
            T = self.typename(key)
            z = {n: fl(q) for n, q in named(st["z"]).items()}
            L.append('  %sOptions zo;' % T)
            for n, v in z.items():
                L.append('  zo.%s = %s;' % (n, lit(v)))
            L.append('  %s rd(zo);' % T)
            L.append('  StateAndVariance before = est;')
            L.append('  StateAndVariance nxt = ekf.sensor_model(%s);' % self.rargs("est", "rd"))
            L.append('  bool same = (nxt.state.data == before.state.data) && (nxt.covariance.data == before.covariance.data);')
            L.append('  std::printf("B %d unchanged %%d\\n", same ? 1 : 0);' % i)
            L.append('  est = nxt;')
            self.print_state(i, "x", "est.state")
            self.print_cov(i, "P", "est.covariance")
            L.append('  auto inn = ekf.innovations<%s>();' % T)
            L.append('  if (!inn.has_value()) std::printf("E no-innovation\\n"); else {')
            for r in sorted(d.sensors[key]):
                L.append('    pv(%d, "innov", "%s", (*inn)(iR_%s_%s, 0));' % (i, r, T, r))
            L.append('  }')
            L.append('  last_%s = inn;' % T)
            # the ghost filter takes a different reading from a different estimate ...
            L.append('  { %sOptions gzo;' % T)
            for n, v in z.items():
                L.append('    gzo.%s = %s;' % (n, lit(v + 3.0)))
            L.append('    %s grd(gzo); StateAndVariance gest = before;' % T)
            L.append('    for (int gi = 0; gi < (int)State::rows; ++gi) gest.state.data(gi, 0) += 1.0;')
            L.append('    ghost.sensor_model(%s); }' % self.rargs("gest", "grd"))
            # ... and every innovation the first filter stored is still what it was (its own sensors' too)
            self.check_innovation_store(i)
        L.append('  }')

    def check_innovation_store(self, i):
        for key in sorted(self.d.sensors):
            T = self.typename(key)
            self.lines.append('  { auto cur = ekf.innovations<%s>(); if (cur.has_value() != last_%s.has_value() || (cur.has_value() && !(*cur == *last_%s)))'
                              ' std::printf("E stored-innovation-changed:%s:after-step-%d\\n"); }' % (T, T, T, key, i))

    def finish(self):
        if self.kind == "ekf":
            self.check_innovation_store(len(self.lines))
        self.lines.append('  return 0;')
        self.lines.append('}')
        return "\n".join(self.lines) + "\n"


def driver_text(scn, kind="ekf"):
    d = Definition(scn["def"])
    drv = Driver(d, kind)
    drv.prelude()
    for i, st in enumerate(scn["steps"]):
        drv.step(i, st)
    return drv.finish()


def parse_driver_output(text):
    vals = {}   # (step, what) -> {name: v} or {row: {col: v}}
    flags = {}
    errors = []
    for line in text.splitlines():
        t = line.split()
        if not t:
            continue
        if t[0] == "V":
            vals.setdefault((int(t[1]), t[2]), {})[t[3]] = float(t[4])
        elif t[0] == "M":
            vals.setdefault((int(t[1]), t[2]), {}).setdefault(t[3], {})[t[4]] = float(t[5])
        elif t[0] == "B":
            flags[(int(t[1]), t[2])] = int(t[3])
        elif t[0] == "E":
            errors.append(" ".join(t[1:]))
        elif t[0] == "C":
            vals.setdefault((-1, "config"), {})[t[1]] = float.fromhex(t[2])
        elif t[0] == "L":
            vals.setdefault((-1, "layout:" + t[1]), {})[t[2]] = int(t[3])
    return vals, flags, errors


def generate_task(mods, scn, cse, outdir, kind="ekf", presentation=None, via_entry=False):
    """Pool task: render FormaK's C++ for the scenario and write the driver.  Returns dict."""
    d = Definition(scn["def"])
    try:
        render(mods, d, cse, outdir, kind=kind, presentation=presentation, via_entry=via_entry)
    except Exception as e:
        return {"ok": False, "stage": "generate", "error": repr(e)[:500], "tb": traceback.format_exc()[-1500:]}
    with open(os.path.join(outdir, "driver.cpp"), "w") as fh:
        fh.write(driver_text(scn, kind))
    return {"ok": True}
