"""From the specification's data (JSON printed by TLC) to what a FormaK user would write.

Only *construction* happens here: trees -> sympy expressions, definitions -> ui.Model etc.
No expected value is ever computed with sympy / numpy (DESIGN 7b, independence of the oracle);
expected values are TLC's exact rationals, or -- for trees with elementary functions only --
`interp`, the reference interpreter over Python's math module.
"""
import math
import os
import sys
from fractions import Fraction

REPO = os.environ.get("VERIF_REPO", "/repo")


def import_formak():
    """Import formak from the current working tree of /repo (cwd must be /repo for templates)."""
    p = os.path.join(REPO, "py")
    if p not in sys.path:
        sys.path.insert(0, p)
    os.chdir(REPO)
    import formak  # noqa: F401
    from formak import ui, python, cpp, common, runtime, exceptions  # noqa: F401
    return ui, python, cpp, common, runtime, exceptions


# ---------------------------------------------------------------- rationals ----
BY_HARNESS = (2, 0)


def is_rat(q):
    return isinstance(q, (list, tuple)) and len(q) == 2 and q[1] != 0


def frac(q):
    """[n, d] -> Fraction (d != 0)."""
    return Fraction(q[0], q[1])


def fl(q):
    return float(Fraction(q[0], q[1]))


def named(obj):
    """TLC prints a function with empty domain as [] -- normalise to {}."""
    if isinstance(obj, list) and len(obj) == 0:
        return {}
    return obj


# ------------------------------------------------------------------- trees ----
def to_sympy(e, symtab):
    """Expr tree -> sympy expression, built bottom-up exactly as a user would type it."""
    import sympy
    op = e["op"]
    if op == "sym":
        return symtab[e["name"]]
    if op == "const":
        n, d = e["val"]
        return sympy.Rational(n, d)
    if op == "add":
        return to_sympy(e["l"], symtab) + to_sympy(e["r"], symtab)
    if op == "sub":
        return to_sympy(e["l"], symtab) - to_sympy(e["r"], symtab)
    if op == "mul":
        return to_sympy(e["l"], symtab) * to_sympy(e["r"], symtab)
    if op == "div":
        return to_sympy(e["l"], symtab) / to_sympy(e["r"], symtab)
    if op == "neg":
        return -to_sympy(e["a"], symtab)
    if op == "pow":
        return to_sympy(e["b"], symtab) ** int(e["n"])
    if op == "fn":
        if e["f"] == "sat":
            return sympy.Function("sat")(to_sympy(e["a"], symtab))      # user function, resolved through Config.python_modules
        f = getattr(sympy, e["f"])
        return f(to_sympy(e["a"], symtab))
    raise ValueError("unknown op %r" % (op,))


def to_text(e):
    """Expr tree -> the string a user could pass instead of an expression (parse_expr syntax)."""
    op = e["op"]
    if op == "sym":
        return e["name"]
    if op == "const":
        n, d = e["val"]
        return "(%d)" % n if d == 1 else "(Rational(%d, %d))" % (n, d)
    if op in ("add", "sub", "mul", "div"):
        c = {"add": "+", "sub": "-", "mul": "*", "div": "/"}[op]
        return "(%s %s %s)" % (to_text(e["l"]), c, to_text(e["r"]))
    if op == "neg":
        return "(-%s)" % to_text(e["a"])
    if op == "pow":
        return "(%s ** %d)" % (to_text(e["b"]), int(e["n"]))
    if op == "fn":
        return "%s(%s)" % (e["f"], to_text(e["a"]))
    raise ValueError(op)


_FN = {"sin": math.sin, "cos": math.cos, "exp": math.exp, "tanh": math.tanh, "atan": math.atan,
       "sqrt": math.sqrt, "log": math.log, "tan": math.tan, "asin": math.asin, "acos": math.acos,
       "sat": lambda v: max(-1.0, min(1.0, v))}


def user_sat(v):
    """the user function the harness supplies as `sat` through Config.python_modules"""
    return max(-1.0, min(1.0, v))


def uses_fn(e, name):
    op = e["op"]
    if op in ("sym", "const"):
        return False
    if op in ("add", "sub", "mul", "div"):
        return uses_fn(e["l"], name) or uses_fn(e["r"], name)
    if op == "neg":
        return uses_fn(e["a"], name)
    if op == "pow":
        return uses_fn(e["b"], name)
    return e["f"] == name or uses_fn(e["a"], name)


def interp(e, env):
    """Reference interpreter (floats, Python's math).  env: name -> float.
    Raises ZeroDivisionError / ValueError / OverflowError where the tree is undefined."""
    op = e["op"]
    if op == "sym":
        return env[e["name"]]
    if op == "const":
        return e["val"][0] / e["val"][1]
    if op == "add":
        return interp(e["l"], env) + interp(e["r"], env)
    if op == "sub":
        return interp(e["l"], env) - interp(e["r"], env)
    if op == "mul":
        return interp(e["l"], env) * interp(e["r"], env)
    if op == "div":
        return interp(e["l"], env) / interp(e["r"], env)
    if op == "neg":
        return -interp(e["a"], env)
    if op == "pow":
        return interp(e["b"], env) ** int(e["n"])
    if op == "fn":
        return _FN[e["f"]](interp(e["a"], env))
    raise ValueError(op)


def _interp_noisy(e, env, rnd):
    """interp with a relative perturbation of +-2^-48 (about 16 ulp) injected into the result of every operation"""
    op = e["op"]
    if op == "sym":
        return env[e["name"]]
    if op == "const":
        return e["val"][0] / e["val"][1]
    if op in ("add", "sub", "mul", "div"):
        a, b = _interp_noisy(e["l"], env, rnd), _interp_noisy(e["r"], env, rnd)
        v = a + b if op == "add" else a - b if op == "sub" else a * b if op == "mul" else a / b
    elif op == "neg":
        return -_interp_noisy(e["a"], env, rnd)
    elif op == "pow":
        v = _interp_noisy(e["b"], env, rnd) ** int(e["n"])
    elif op == "fn":
        v = _FN[e["f"]](_interp_noisy(e["a"], env, rnd))
    else:
        raise ValueError(op)
    return v * (1.0 + (rnd.random() * 2.0 - 1.0) * 2.0 ** -48)


def interp_spread(e, env, trials=6):
    """How far the value of the tree moves when every intermediate result is perturbed by ~16 ulp: a measure of how
    ill-conditioned the floating-point evaluation of this expression is at this point (sin of a huge number, differences of
    nearly equal terms, poles).  Two correct evaluations (another association order, constants folded in higher precision)
    may legitimately differ by a fraction of this.  Returns +inf where a perturbed evaluation leaves the domain."""
    import random
    rnd = random.Random(20260928)
    try:
        v0 = interp(e, env)
        worst = 0.0
        for _ in range(trials):
            worst = max(worst, abs(_interp_noisy(e, env, rnd) - v0))
        return worst if worst == worst else float("inf")
    except (ZeroDivisionError, ValueError, OverflowError):
        return float("inf")


def well_conditioned(e, env, v=None, rel=1e-9):
    """True iff perturbing every intermediate by ~16 ulp moves the value by less than a quarter of the comparison tolerance"""
    if v is None:
        v = interp(e, env)
    return 4.0 * interp_spread(e, env) <= rel * max(1.0, abs(v))


def interp_exact(e, env):
    """Exact evaluation on the rational fragment with Fractions (used ONLY to cross-validate
    `interp` and TLC against each other; never as an oracle).  None if undefined."""
    op = e["op"]
    try:
        if op == "sym":
            return env[e["name"]]
        if op == "const":
            return Fraction(e["val"][0], e["val"][1])
        if op in ("add", "sub", "mul", "div"):
            a, b = interp_exact(e["l"], env), interp_exact(e["r"], env)
            if a is None or b is None:
                return None
            if op == "add":
                return a + b
            if op == "sub":
                return a - b
            if op == "mul":
                return a * b
            return a / b
        if op == "neg":
            a = interp_exact(e["a"], env)
            return None if a is None else -a
        if op == "pow":
            a = interp_exact(e["b"], env)
            return None if a is None else a ** int(e["n"])
    except ZeroDivisionError:
        return None
    raise ValueError(op)


def is_rational_tree(e):
    op = e["op"]
    if op in ("sym", "const"):
        return True
    if op in ("add", "sub", "mul", "div"):
        return is_rational_tree(e["l"]) and is_rational_tree(e["r"])
    if op == "neg":
        return is_rational_tree(e["a"])
    if op == "pow":
        return is_rational_tree(e["b"])
    return False


def tree_size(e):
    op = e["op"]
    if op in ("sym", "const"):
        return 1
    if op in ("add", "sub", "mul", "div"):
        return 1 + tree_size(e["l"]) + tree_size(e["r"])
    if op == "neg":
        return 1 + tree_size(e["a"])
    if op == "pow":
        return 1 + tree_size(e["b"])
    return 1 + tree_size(e["a"])


def tree_syms(e, acc=None):
    acc = set() if acc is None else acc
    op = e["op"]
    if op == "sym":
        acc.add(e["name"])
    elif op in ("add", "sub", "mul", "div"):
        tree_syms(e["l"], acc)
        tree_syms(e["r"], acc)
    elif op == "neg" or op == "fn":
        tree_syms(e["a"], acc)
    elif op == "pow":
        tree_syms(e["b"], acc)
    return acc


def subtrees(e, acc):
    """multiset of canonical strings of non-leaf subtrees (to count shared sub-terms)."""
    import json
    op = e["op"]
    if op in ("sym", "const"):
        return
    key = json.dumps(e, sort_keys=True)
    acc[key] = acc.get(key, 0) + 1
    if op in ("add", "sub", "mul", "div"):
        subtrees(e["l"], acc)
        subtrees(e["r"], acc)
    elif op == "neg" or op == "fn":
        subtrees(e["a"], acc)
    elif op == "pow":
        subtrees(e["b"], acc)


# -------------------------------------------------------------- definitions ----
class Definition:
    """A definition as the spec sees it (sets of names, maps by name)."""

    def __init__(self, j):
        self.j = j
        self.state = sorted(j["state"])
        self.control = sorted(j["control"])
        self.calib = sorted(j["calib"])
        self.update = named(j["update"])
        self.calmap = named(j["calmap"])
        self.pnoise = named(j["pnoise"])
        self.sensors = {k: named(v) for k, v in named(j["sensors"]).items()}
        self.snoise = {k: named(v) for k, v in named(j["snoise"]).items()}
        self.k = j.get("k", [0, 0])

    def gate(self):
        return None if (self.k is None or self.k[1] == 0) else fl(self.k)

    def all_rational(self):
        return all(is_rational_tree(t) for t in self.update.values()) and \
            all(is_rational_tree(t) for m in self.sensors.values() for t in m.values())

    def nontrivial(self):
        """Non-trivial by the rule used in the evidence: at least one shared non-leaf sub-term
        across the definition's trees, or at least two distinct symbols used."""
        acc = {}
        syms = set()
        for t in list(self.update.values()) + [t for m in self.sensors.values() for t in m.values()]:
            subtrees(t, acc)
            tree_syms(t, syms)
        return any(c >= 2 for c in acc.values()) or len(syms) >= 2

    def canonical(self):
        import json
        return json.dumps({"s": self.state, "c": self.control, "k": self.calib, "u": self.update,
                           "m": self.sensors}, sort_keys=True)


def make_symbols(d, symbol_cls):
    names = ["dt"] + d.state + d.control + d.calib
    return {n: symbol_cls(n) for n in names}


def resolve_presentation(pres, d):
    """A presentation is HOW the user writes one abstract definition down: declaration order per role, container kind,
    optional flags.  Named presentations ("random:<seed>", "list-reversed", "set", "list", ...) -> concrete dict."""
    import random as _random
    if isinstance(pres, str):
        pres = {"container": pres}
    pres = dict(pres or {})
    c = pres.get("container", set)
    roles = {"state": d.state, "control": d.control, "calib": d.calib, "update": d.state, "calmap": d.calib,
             "pnoise": d.control, "sensors": sorted(d.sensors), "snoise": sorted(d.snoise)}
    for k in d.sensors:
        roles["readings:" + k] = sorted(d.sensors[k])
    for k in d.snoise:
        roles["snoise:" + k] = sorted(d.snoise[k])
    if isinstance(c, str):
        if c.startswith("random:"):
            rnd = _random.Random(c)
            order = {}
            for role, names in roles.items():
                names = list(names)
                rnd.shuffle(names)
                order[role] = names
            pres["order"] = order
            pres["container"] = rnd.choice([set, list, tuple, frozenset])
            pres["proactive_simplify"] = rnd.random() < 0.25
            pres["variety"] = c
        elif c == "list-reversed":
            pres["order"] = {role: list(reversed(sorted(names))) for role, names in roles.items()}
            pres["container"] = list
        else:
            pres["container"] = {"set": set, "list": list, "tuple": tuple, "frozenset": frozenset}[c]
    return pres


def make_ui_model(d, ui, container=set, order=None, as_string=False, symtab=None, proactive_simplify=False):
    """Build ui.Model the way a user would.  container: set/list/tuple/frozenset for the
    symbol collections; order: optional dict role -> list of names giving declaration order."""
    symtab = symtab or make_symbols(d, ui.Symbol)
    order = order or {}

    def coll(names, role):
        names = order.get(role, names)
        return container([symtab[n] for n in names])

    upd_names = order.get("update", d.state)
    state_model = {}
    for n in upd_names:
        state_model[symtab[n]] = to_text(d.update[n]) if as_string else to_sympy(d.update[n], symtab)
    kw = {}
    if proactive_simplify:
        kw["proactive_simplify"] = True
    import contextlib, io
    with contextlib.redirect_stdout(io.StringIO()):
        model = ui.Model(dt=symtab["dt"], state=coll(d.state, "state"), control=coll(d.control, "control"),
                         state_model=state_model, calibration=coll(d.calib, "calib"), **kw)
    return model, symtab


def _as_kind(x, rnd):
    """a noise / calibration magnitude as the user might type it: float, int, sympy.Rational or fractions.Fraction"""
    if rnd is None:
        return fl(x)
    import sympy
    f = frac(x)
    kinds = ["float", "float", "rational", "fraction"] + (["int"] if f.denominator == 1 else [])
    k = rnd.choice(kinds)
    if k == "float":
        return float(f)
    if k == "int":
        return int(f)
    if k == "rational":
        return sympy.Rational(f.numerator, f.denominator)
    return f


def ekf_args(d, symtab, order=None, variety=None):
    """variety: None, or a seed string -> value types (float/int/Rational/Fraction) and, for single-reading sensors, the key
    type of the reading (str or Symbol) are drawn at random -- all of these are the same abstract definition"""
    import random as _random
    order = order or {}
    rnd = _random.Random("variety:" + variety) if variety else None
    process_noise = {symtab[c]: _as_kind(d.pnoise[c], rnd) for c in order.get("pnoise", d.control)}
    sensor_models = {}
    sensor_noises = {}

    def rkey(key, r, which):
        if rnd is None or len(d.sensors[key]) != 1:
            return r
        import sympy
        return sympy.Symbol(r) if rnd.random() < 0.4 else r
    for key in order.get("sensors", sorted(d.sensors)):
        rs = order.get("readings:" + key, sorted(d.sensors[key]))
        sensor_models[key] = {rkey(key, r, "m"): to_sympy(d.sensors[key][r], symtab) for r in rs}
    for key in order.get("snoise", sorted(d.snoise)):
        rs = order.get("snoise:" + key, sorted(d.snoise[key]))
        sensor_noises[key] = {rkey(key, r, "n"): _as_kind(d.snoise[key][r], rnd) for r in rs}
    calibration_map = {symtab[c]: fl(d.calmap[c]) for c in order.get("calmap", d.calib)}
    return process_noise, sensor_models, sensor_noises, calibration_map
