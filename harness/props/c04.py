"""C04 -- prediction step is x' = f(x,u), P' = G P G^T + V M V^T."""
import numeric


REPO_ASSUME = ("thorough tier: every model / filter call the repository's own test-suite executes is recorded (pytest plugin, /repo untouched), "
               "projected against the Jacobian trees Derive.tla derives from the recorded definition, and validated by EKFCalls_Trace.tla")


def run(ctx):
    return numeric.run_numeric(
        ctx, sim=("MC_EKF", "MC_C04_sim.cfg"), sim_num_quick=96, sim_num_thorough=2400,
        rule="behaviour = definition + SetEstimate/Predict sequence; each Predict compares state and covariance by name with "
             "TLC's exact G P G^T + V M V^T, checks that the inputs were not modified and that repeating the call is identical",
        scope="simulation: 1-3 states, 0-2 controls (distinct per-control noise), 0-2 calibrations, rational fragment, SPD integer covariances D + v v^T",
        assumptions=numeric.BASE_ASSUME + [REPO_ASSUME], repo_tests=True)


def replay(ctx, path):
    return numeric.replay_file(ctx, path)
