"""Recognition of the ONE known finding that is recorded and not repaired (known_findings.json, DESIGN 9.4 F1).

F1: sympy 1.14 decides that an ill-conditioned CONSTANT acos(c) / asin(c), c within ~1e-6 of +-1 (e.g. acos(tanh(8)) = 6.7e-4),
"is zero" (`acos(tanh(8)).is_zero` is True: its low-precision evalf rounds the argument to 1).  FormaK runs sympy.simplify on every
expression when common-subexpression elimination is on (python.BasicBlock, cpp.BasicBlock) and when proactive_simplify is requested
(ui_model.Model), so such a constant becomes 0 in the compiled model although the symbolic expression -- and the compiled model
with CSE off -- evaluate to 6.7e-4.  The defect is upstream (sympy's zero test), the failing inputs are exactly the definitions
recognised here, and every other violation is still reported:

  a mismatch is attributed to F1 only if the expression it is about (or, for filter steps whose values depend on the whole
  definition, some expression of the definition) contains a SYMBOL-FREE sub-expression  acos(c) or asin(c)  with
  1 - |c| < 1e-5, and ALL mismatches of the replay are attributed."""
import math

from build import interp, named

KEY = "sympy-zero-test-of-ill-conditioned-constant"
NUMERIC_GLOBAL = {"x", "P", "innov", "S", "nis", "score", "mahalanobis"}      # values that depend on the whole definition


def _symbol_free(t):
    op = t["op"]
    if op == "sym":
        return False
    if op == "const":
        return True
    if op in ("add", "sub", "mul", "div"):
        return _symbol_free(t["l"]) and _symbol_free(t["r"])
    if op == "neg":
        return _symbol_free(t["a"])
    if op == "pow":
        return _symbol_free(t["b"])
    return _symbol_free(t["a"])


def ill_constants(t):
    """symbol-free sub-expressions acos(c) / asin(c) with c within 1e-5 of +-1"""
    out = []
    op = t["op"]
    if op == "fn":
        if t["f"] in ("acos", "asin") and _symbol_free(t["a"]):
            try:
                c = interp(t["a"], {})
                if abs(c) <= 1.0 and 1.0 - abs(c) < 1e-5:
                    out.append("%s(%.17g)" % (t["f"], c))
            except (ZeroDivisionError, ValueError, OverflowError):
                pass
        out += ill_constants(t["a"])
    elif op in ("add", "sub", "mul", "div"):
        out += ill_constants(t["l"]) + ill_constants(t["r"])
    elif op == "neg":
        out += ill_constants(t["a"])
    elif op == "pow":
        out += ill_constants(t["b"])
    return out


def _all_trees(dj):
    trees = list(named(dj["update"]).values())
    for m in named(dj["sensors"]).values():
        trees += list(named(m).values())
    return trees


def definition_has(dj):
    return any(ill_constants(t) for t in _all_trees(dj))


def _explained(scn, m):
    dj = scn["def"]
    what = str(m.get("what", ""))
    base = what.replace("-reread-at-end", "")
    name = m.get("name")
    if base == "xn" and isinstance(name, str):
        t = named(dj["update"]).get(name)
        return bool(t and ill_constants(t))
    if base in ("h", "H") and isinstance(m.get("step"), int) and 0 <= m["step"] < len(scn["steps"]):
        key = scn["steps"][m["step"]].get("key")
        row = str(name).split(",")[0]
        t = named(named(dj["sensors"]).get(key, {})).get(row)
        return bool(t and ill_constants(t))
    if base in ("G", "V"):
        row = str(name).split(",")[0]
        t = named(dj["update"]).get(row)
        return bool(t and ill_constants(t))
    if base in NUMERIC_GLOBAL:
        return definition_has(dj)
    return False


def attributed(scn, mismatches):
    """True iff every mismatch of this replay is explained by F1 (then the violation is filed under KEY)."""
    try:
        return bool(mismatches) and all(_explained(scn, m) for m in mismatches)
    except Exception:
        return False
