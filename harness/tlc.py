"""Run TLC on the /verif/spec suite and parse what it prints.

Everything runs in a throw-away work directory (spec files copied in, metadir inside),
removed afterwards.  Never leaves anything in /verif/spec.
"""
import json
import os
import re
import shutil
import subprocess
import tempfile
import time

SPEC_DIR = "/verif/spec"
JAR = "/opt/veriftools/tla/tla2tools.jar:/opt/veriftools/tla/CommunityModules-deps.jar"


class TLCError(Exception):
    """Machinery failure of a TLC run (parse error, evaluation error, timeout ...)."""


class TLCResult:
    def __init__(self):
        self.states = 0          # states generated
        self.distinct = 0        # distinct states
        self.depth = 0
        self.printed = []        # decoded JSON objects printed with PrintT(ToJson(..))
        self.raw_prints = []     # other PrintT lines
        self.coverage = {}       # action name -> (distinct, total)
        self.violation = None    # text of an invariant / property violation reported by TLC
        self.output = ""
        self.wall_s = 0.0
        self.cmd = ""
        self.traces = 0

    def summary(self):
        return {"states": self.states, "distinct": self.distinct, "depth": self.depth,
                "printed": len(self.printed), "wall_s": round(self.wall_s, 2)}


_JSON_LINE = re.compile(r'^"(\{.*\}|\[.*\])"$')


def _decode_printed(line):
    m = _JSON_LINE.match(line)
    if not m:
        return None
    try:
        inner = json.loads(line)       # TLC prints the string value as a quoted, escaped literal
        return json.loads(inner)
    except Exception:
        return None


def run(module, cfg=None, mode="bfs", workers=8, num=100, depth=60, seed=0, timeout=600,
        coverage=False, extra_env=None, extra_files=None, heap="4g", deadlock=False,
        dfs_queue=False, keep=None):
    """Run TLC.  module: name without .tla in SPEC_DIR.  cfg: file name in SPEC_DIR
    (default module.cfg).  mode: 'bfs' or 'sim'.  Returns TLCResult.
    Raises TLCError for machinery failures.  An invariant/property violation found by TLC
    is NOT an exception: it is returned in result.violation."""
    work = tempfile.mkdtemp(prefix="verif-tlc-")
    try:
        for f in os.listdir(SPEC_DIR):
            if f.endswith(".tla") or f.endswith(".cfg"):
                shutil.copy(os.path.join(SPEC_DIR, f), work)
        for name, content in (extra_files or {}).items():
            with open(os.path.join(work, name), "w") as fh:
                fh.write(content)
        cfg = cfg or (module + ".cfg")
        # (java.io.tmpdir inside the work directory: TLC creates an empty tlc-<n> directory per run there, removed with the rest)
        jopts = ["-XX:+UseSerialGC" if workers <= 2 else "-XX:+UseParallelGC", "-Xmx" + heap, "-Xss16m", "-Djava.io.tmpdir=" + work]
        if workers > 2:
            jopts.append("-XX:ParallelGCThreads=4")
        if dfs_queue:
            jopts.append("-Dtlc2.tool.queue.IStateQueue=StateDeque")
        cmd = ["java"] + jopts + ["-cp", JAR, "tlc2.TLC", "-workers", str(workers),
                                  "-metadir", os.path.join(work, "meta"), "-noGenerateSpecTE",
                                  "-config", cfg]
        if mode == "sim":
            cmd += ["-simulate", "num=%d" % num, "-depth", str(depth), "-seed", str(seed)]
        else:
            cmd += ["-seed", str(seed)]
        if coverage:
            cmd += ["-coverage", "1"]
        if deadlock:
            cmd += ["-deadlock"]
        cmd += [module + ".tla"]
        env = dict(os.environ)
        env.update(extra_env or {})
        t0 = time.time()
        try:
            p = subprocess.run(cmd, cwd=work, env=env, stdout=subprocess.PIPE, stderr=subprocess.STDOUT,
                               timeout=timeout, text=True, errors="replace")
        except subprocess.TimeoutExpired as e:
            raise TLCError("TLC timeout after %ss: %s" % (timeout, " ".join(cmd)))
        res = TLCResult()
        res.wall_s = time.time() - t0
        res.cmd = " ".join(cmd[cmd.index("tlc2.TLC"):])
        res.output = p.stdout
        _parse(res, p.stdout)
        if keep:
            with open(keep, "w") as fh:
                fh.write(p.stdout)
        if res.violation is None and p.returncode != 0:
            lines = p.stdout.splitlines(); errs = [l for l in lines if "rror" in l or "xception" in l or "verflow" in l][:12]; tail = "\n".join(errs + ["..."] + lines[-12:])
            raise TLCError("TLC exit %d\n%s" % (p.returncode, tail))
        return res
    finally:
        shutil.rmtree(work, ignore_errors=True)


_STATES = re.compile(r"^(\d+) states generated, (\d+) distinct states found")
_SIMSTATES = re.compile(r"^The number of states generated: (\d+)")
_DEPTH = re.compile(r"^The depth of the complete state graph search is (\d+)")
_TRACES = re.compile(r"(\d+) traces generated")
_COV = re.compile(r"^<(\w+) line \d+, col \d+ to line \d+, col \d+ of module (\w+)>: (\d+):(\d+)")


def _parse(res, out):
    lines = out.splitlines()
    viol = []
    in_viol = False
    for i, line in enumerate(lines):
        s = line.strip()
        if s.startswith('"{') or s.startswith('"['):
            obj = _decode_printed(s)
            if obj is not None:
                res.printed.append(obj)
                continue
        m = _STATES.match(s)
        if m:
            res.states, res.distinct = int(m.group(1)), int(m.group(2))
        m = _SIMSTATES.match(s)
        if m:
            res.states = int(m.group(1))
            res.distinct = res.distinct or 0
        m = _DEPTH.match(s)
        if m:
            res.depth = int(m.group(1))
        m = _TRACES.search(s)
        if m:
            res.traces = int(m.group(1))
        m = _COV.match(s)
        if m:
            name = m.group(1)
            d, t = int(m.group(3)), int(m.group(4))
            od, ot = res.coverage.get(name, (0, 0))
            res.coverage[name] = (od + d, ot + t)
        if s.startswith("Error:"):
            if ("Invariant" in s and "violated" in s) or "Temporal properties were violated" in s \
                    or "Action property" in s or "is violated" in s or "Assumption" in s \
                    or "Postcondition" in s.replace("POSTCONDITION", "Postcondition") \
                    or "Deadlock reached" in s:
                in_viol = True
        if in_viol:
            viol.append(line)
        elif s.startswith('<<') or s.startswith('"'):
            res.raw_prints.append(s)
    if viol:
        res.violation = "\n".join(viol[:400])


def check_coverage(res, required_actions):
    """Vacuity guard: every listed action must have been taken at least once."""
    missing = [a for a in required_actions if res.coverage.get(a, (0, 0))[1] == 0]
    return missing
