---- MODULE MC_MF_c12_3 ----
EXTENDS ManagedFilter
cTimes == -6..6
cMaxDts == {1, 2, 3}
cKeys == {"k1", "k2", "k3"}
====
