---- MODULE MC_MF_dec ----
(* histories for the decimal (non-representable) time grid: unit 0.01 s, max_dt in {0.01, 0.05, 0.1, 0.3} *)
EXTENDS ManagedFilter
cTimes == -150..150
cMaxDts == {1, 5, 10, 30}
cKeys == {"k1", "K0"}
====
