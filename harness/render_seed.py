"""Run in a FRESH process per PYTHONHASHSEED: render every (definition, presentation) job and print digests.
usage: PYTHONHASHSEED=<s> python render_seed.py jobs.json out.json"""
import hashlib
import json
import os
import sys
import tempfile
import shutil

sys.path.insert(0, os.path.dirname(os.path.abspath(__file__)))


def main():
    jobs = json.load(open(sys.argv[1]))
    import build
    ui, python, cpp, common, runtime, exceptions = build.import_formak()
    import cpprep
    mods = {"ui": ui, "python": python, "cpp": cpp}
    out = []
    sys.stdout = open(os.devnull, "w")
    for job in jobs:
        d = build.Definition(job["def"])
        pres = dict(job["pres"])
        pres["container"] = {"set": set, "list": list, "tuple": tuple, "frozenset": frozenset}[pres["container"]]
        tmp = tempfile.mkdtemp(prefix="verif-c15-")
        rec = {"job": job["id"]}
        try:
            h, s = cpprep.render(mods, d, job.get("cse", True), tmp, kind="ekf", presentation=pres, via_entry=True)
            rec["header"] = hashlib.sha256(open(h, "rb").read()).hexdigest()
            rec["source"] = hashlib.sha256(open(s, "rb").read()).hexdigest()
            if job.get("twice"):
                # the same generator object rendered twice (header, source, source, header)
                model2, symtab2 = build.make_ui_model(d, ui, container=pres.get("container", set), order=pres.get("order"), as_string=pres.get("as_string", False))
                pn, sm, sn, cm = build.ekf_args(d, symtab2, order=pres.get("order"))
                g = cpp._generate_ekf_function_bodies(h, cpprep.NS, model2, pn, sm, sn, cm, {"common_subexpression_elimination": job.get("cse", True)})
                h1 = "\n".join(cpp.header_from_ast(generator=g)); s1 = "\n".join(cpp.source_from_ast(generator=g))
                s2 = "\n".join(cpp.source_from_ast(generator=g)); h2 = "\n".join(cpp.header_from_ast(generator=g))
                rec["twice_same"] = bool(h1 == h2 and s1 == s2)
            import pyrep
            impl, model, symtab = pyrep.build_py(d, ui, python, job.get("cse", True), True, pres)
            layout = {"state": [str(x) for x in impl.arglist_state], "control": [str(x) for x in impl.arglist_control],
                      "calib": [str(x) for x in impl.arglist_calibration],
                      "model_arglist": [str(x) for x in impl._state_model.arglist],
                      "sensors": {k: [str(r) for r in sm.readings] for k, sm in sorted(impl.sensor_models.items())},
                      "State": [str(x) for x in impl.State._arglist]}
            rec["layout"] = hashlib.sha256(json.dumps(layout, sort_keys=True).encode()).hexdigest()
            rec["layout_value"] = layout
        except Exception as e:
            rec["error"] = repr(e)[:300]
        finally:
            shutil.rmtree(tmp, ignore_errors=True)
        out.append(rec)
    json.dump(out, open(sys.argv[2], "w"))


if __name__ == "__main__":
    main()
