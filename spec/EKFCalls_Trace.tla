--------------------------- MODULE EKFCalls_Trace ---------------------------
(* a trace = the recorded calls of one model / filter object built by one of the repository's own tests *)
EXTENDS EKFCalls, Json, IOUtils, TLCExt
Traces == JsonDeserialize(IOEnv.TRACE_FILE)
VARIABLES tid, l
ASSUME \A t \in 1..Len(Traces) : TLCSet(t, 0)
Ev == Traces[tid][l]
TInit == tid \in 1..Len(Traces) /\ l = 1 /\ Init
Claimed == l <= Len(Traces[tid]) /\ Ev.claim
TModel == Claimed /\ Ev.kind = "model" /\ Model(Ev)
TPredict == Claimed /\ Ev.kind = "predict" /\ Predict(Ev)
TAccept == Claimed /\ Ev.kind = "update" /\ UpdateAccept(Ev)
TReject == Claimed /\ Ev.kind = "update" /\ UpdateReject(Ev)
\* inputs outside the claim (ill-typed, non-finite, unbounded, covariance not valid in the strict measure): nothing is required
TNoClaim == l <= Len(Traces[tid]) /\ ~Ev.claim /\ UNCHANGED calls
TNext == (TModel \/ TPredict \/ TAccept \/ TReject \/ TNoClaim) /\ l' = l + 1 /\ UNCHANGED tid
Reach == TLCSet(tid, IF TLCGet(tid) < l THEN l ELSE TLCGet(tid))
Post == \A t \in 1..Len(Traces) :
          IF TLCGet(t) = Len(Traces[t]) + 1 THEN PrintT(<<"ACCEPT", t>>)
          ELSE PrintT(<<"REJECT", t, TLCGet(t)>>)
=============================================================================
