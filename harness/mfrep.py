"""Replay of ManagedFilter.tla behaviours into py/formak/runtime.py with a recording stand-in filter
(the free monoid of calls), on the dyadic time grid (1 spec time unit = 2^-10 s: every float
operation of the runtime is then exact, so the real call sequence must equal the plan exactly)."""
import traceback
from types import SimpleNamespace

UNIT = 2.0 ** -10


class RecFilter:
    """Duck-typed EKF: an estimate is the tuple of calls applied so far."""

    def __init__(self, control_size, max_dt_sec):
        self.control_size = control_size
        self.config = SimpleNamespace(max_dt_sec=max_dt_sec, innovation_filtering=None)
        self.calls = 0

    def process_model(self, dt, state, covariance, control=None):
        self.calls += 1
        c = 0 if control is None else control
        return (tuple(state) + (("P", dt, c),), covariance)

    def sensor_model(self, state, covariance, *, sensor_key, sensor_reading):
        self.calls += 1
        return (tuple(state) + (("S", sensor_key, sensor_reading),), covariance)

    def make_reading(self, key, **kwargs):
        return kwargs["id"]


def expect_hist(ops, unit=UNIT):
    out = []
    for op in ops:
        if op[0] == "P":
            out.append(("P", op[1] * unit, op[2]))
        else:
            out.append(("S", op[1], op[2]))
    return tuple(out)


def replay(mods, scn, unit=UNIT, offset=0.0):
    """Returns {"mismatch": None | dict, "ticks": n, "calls": n}.  offset: all times are shifted by this many seconds (an exactly
    representable shift: the call sequence must not depend on where on the time axis the history happens)."""
    runtime = mods["runtime"]
    ekf = RecFilter(1 if scn["hasControl"] else 0, scn["max"] * unit)
    mf = runtime.ManagedFilter(ekf, start_time=scn["t0"] * unit + offset, state=(), covariance="P0")
    n = 0
    for i, tk in enumerate(scn["ticks"]):
        n += 1
        objs = {}       # a reading listed twice (same id in the specification) is the very same object listed twice
        readings = []
        for r in tk["rs"]:
            if r["id"] not in objs:
                objs[r["id"]] = runtime.StampedReading(r["t"] * unit + offset, r["key"], id=r["id"])
            readings.append(objs[r["id"]])
        control = (i + 1) if tk["ctl"] else None
        held_before = (mf.current_time, mf.state)
        try:
            kw = {}
            if readings or i % 2 == 0:      # readings=None and readings=[] must behave alike
                kw["readings"] = readings
            ret = mf.tick(tk["out"] * unit + offset, control=control, **kw)
        except TypeError as e:
            if tk["refused"]:
                if (mf.current_time, mf.state) != held_before:
                    return {"mismatch": {"tick": i, "what": "refused-tick-changed-held", "observed": repr(mf.state)}, "ticks": n, "calls": ekf.calls}
                continue
            return {"mismatch": {"tick": i, "what": "exception", "observed": repr(e), "tb": traceback.format_exc()[-800:]}, "ticks": n, "calls": ekf.calls}
        except Exception as e:
            return {"mismatch": {"tick": i, "what": "exception", "observed": repr(e), "tb": traceback.format_exc()[-800:]}, "ticks": n, "calls": ekf.calls}
        if tk["refused"]:
            return {"mismatch": {"tick": i, "what": "tick-without-control-accepted", "observed": repr(ret)[:200]}, "ticks": n, "calls": ekf.calls}
        exp_ret = expect_hist(tk["ret"], unit)
        if tuple(ret.state) != exp_ret:
            return {"mismatch": {"tick": i, "what": "returned-call-sequence", "expected": exp_ret, "observed": tuple(ret.state)}, "ticks": n, "calls": ekf.calls}
        exp_held = expect_hist(tk["held_hist"], unit)
        if tuple(mf.state) != exp_held or mf.current_time != tk["held_t"] * unit + offset:
            return {"mismatch": {"tick": i, "what": "held-estimate", "expected": [tk["held_t"] * unit + offset, exp_held],
                                 "observed": [mf.current_time, tuple(mf.state)]}, "ticks": n, "calls": ekf.calls}
    return {"mismatch": None, "ticks": n, "calls": ekf.calls}
