------------------------------- MODULE Linalg -------------------------------
(***************************************************************************)
(* Small dense matrices over Rational: a matrix is a sequence of rows,     *)
(* each a sequence of rationals.  An r x 0 matrix is a sequence of r empty *)
(* rows; a 0 x c matrix is <<>> (products with it are handled by MatMulD,  *)
(* which takes the inner/outer dimensions explicitly).                     *)
(* MInv / determinant / PSD for sizes 1..3 (closed forms, exact).       *)
(***************************************************************************)
EXTENDS Rational, TLC

\* TLC evaluates [i \in S |-> e] lazily (e is re-evaluated at every application), so nested matrix
\* products would be recomputed exponentially often.  TLCEval forces and caches a value; MkMat / MkVec
\* build fully evaluated matrices / vectors.
MkVec(n, F(_))       == TLCEval([i \in 1..n |-> F(i)])
MkMat(r, c, F(_, _)) == TLCEval([i \in 1..r |-> TLCEval([j \in 1..c |-> F(i, j)])])

Rows(A) == Len(A)
Cols(A) == IF Len(A) = 0 THEN 0 ELSE Len(A[1])

RECURSIVE SumTo(_, _)
\* sum_{k=1..n} f[k]   (f a sequence of rationals)
SumTo(f, n) == IF n = 0 THEN Zero ELSE RAdd(SumTo(f, n - 1), f[n])

ZeroMat(r, c) == MkMat(r, c, LAMBDA i, j : Zero)
Ident(n)      == MkMat(n, n, LAMBDA i, j : IF i = j THEN One ELSE Zero)
Diag(v)       == MkMat(Len(v), Len(v), LAMBDA i, j : IF i = j THEN v[i] ELSE Zero)

\* A is r x k, B is k x c (dimensions explicit so that k = 0 or c = 0 work)
MatMulD(A, B, r, k, c) ==
  MkMat(r, c, LAMBDA i, j : SumTo([t \in 1..k |-> RMul(A[i][t], B[t][j])], k))

MatMul(A, B) == MatMulD(A, B, Rows(A), Cols(A), Cols(B))
TrD(A, r, c) == MkMat(c, r, LAMBDA j, i : A[i][j])
Tr(A)        == TrD(A, Rows(A), Cols(A))
MAdd(A, B)   == MkMat(Rows(A), Cols(A), LAMBDA i, j : RAdd(A[i][j], B[i][j]))
MSub(A, B)   == MkMat(Rows(A), Cols(A), LAMBDA i, j : RSub(A[i][j], B[i][j]))
MatVec(A, v) == MkVec(Rows(A), LAMBDA i : SumTo([t \in 1..Len(v) |-> RMul(A[i][t], v[t])], Len(v)))
VAdd(a, b)   == MkVec(Len(a), LAMBDA i : RAdd(a[i], b[i]))
VSub(a, b)   == MkVec(Len(a), LAMBDA i : RSub(a[i], b[i]))
Dot(a, b)    == SumTo([t \in 1..Len(a) |-> RMul(a[t], b[t])], Len(a))

MatBad(A)  == \E i \in 1..Rows(A) : \E j \in 1..Cols(A) : IsBad(A[i][j])
MatOver(A) == \E i \in 1..Rows(A) : \E j \in 1..Cols(A) : IsOver(A[i][j])
VecBad(v)  == \E i \in 1..Len(v) : IsBad(v[i])
MatFits(A) == \A i \in 1..Rows(A) : \A j \in 1..Cols(A) : Fits(A[i][j])
VecFits(v) == \A i \in 1..Len(v) : Fits(v[i])

Symmetric(A) == \A i \in 1..Rows(A) : \A j \in 1..Rows(A) : A[i][j] = A[j][i]

Det2(a, b, c, d) == RSub(RMul(a, d), RMul(b, c))

Det(A) ==
  CASE Rows(A) = 0 -> One
    [] Rows(A) = 1 -> A[1][1]
    [] Rows(A) = 2 -> Det2(A[1][1], A[1][2], A[2][1], A[2][2])
    [] Rows(A) = 3 ->
         RAdd(RSub(RMul(A[1][1], Det2(A[2][2], A[2][3], A[3][2], A[3][3])),
                   RMul(A[1][2], Det2(A[2][1], A[2][3], A[3][1], A[3][3]))),
              RMul(A[1][3], Det2(A[2][1], A[2][2], A[3][1], A[3][2])))

\* minor of a 3x3: delete row i, column j
Sub3(A, i, j) ==
  LET rs == IF i = 1 THEN <<2, 3>> ELSE IF i = 2 THEN <<1, 3>> ELSE <<1, 2>>
      cs == IF j = 1 THEN <<2, 3>> ELSE IF j = 2 THEN <<1, 3>> ELSE <<1, 2>>
  IN Det2(A[rs[1]][cs[1]], A[rs[1]][cs[2]], A[rs[2]][cs[1]], A[rs[2]][cs[2]])

\* inverse by adjugate; Undef entries if singular
MInv(A) ==
  LET d == TLCEval(Det(A)) n == Rows(A) IN
  CASE n = 1 -> << <<RDiv(One, d)>> >>
    [] n = 2 -> << <<RDiv(A[2][2], d), RDiv(RNeg(A[1][2]), d)>>,
                  <<RDiv(RNeg(A[2][1]), d), RDiv(A[1][1], d)>> >>
    [] n = 3 -> \* (adj A)[i][j] = (-1)^(i+j) * minor(j, i)
                MkMat(3, 3, LAMBDA i, j :
                   RDiv(IF (i + j) % 2 = 0 THEN Sub3(A, j, i) ELSE RNeg(Sub3(A, j, i)), d))

\* positive semi-definite (symmetric A): all principal minors >= 0
PSD(A) ==
  LET n == Rows(A) nn(q) == RSign(q) >= 0 IN
  CASE n = 0 -> TRUE
    [] n = 1 -> nn(A[1][1])
    [] n = 2 -> nn(A[1][1]) /\ nn(A[2][2]) /\ nn(Det(A))
    [] n = 3 -> /\ nn(A[1][1]) /\ nn(A[2][2]) /\ nn(A[3][3])
                /\ nn(Sub3(A, 1, 1)) /\ nn(Sub3(A, 2, 2)) /\ nn(Sub3(A, 3, 3))
                /\ nn(Det(A))

\* positive definite: leading principal minors > 0
PD(A) ==
  LET n == Rows(A) pp(q) == RSign(q) > 0 IN
  CASE n = 0 -> TRUE
    [] n = 1 -> pp(A[1][1])
    [] n = 2 -> pp(A[1][1]) /\ pp(Det(A))
    [] n = 3 -> pp(A[1][1]) /\ pp(Sub3(A, 3, 3)) /\ pp(Det(A))

\* v' M v
Quad(v, M) == Dot(v, MatVec(M, v))
=============================================================================
