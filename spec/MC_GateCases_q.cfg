INIT Init
NEXT Next
CONSTANTS
  Ms <- cMs
  Ks <- cKs
  YVals <- cYq
  SDiag <- cSq
  EmitOn = TRUE
INVARIANT InvBoundaryKept
INVARIANT InvDisabled
INVARIANT InvMonotone
CHECK_DEADLOCK FALSE
