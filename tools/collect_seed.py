#!/venv/bin/python
"""usage: collect_seed.py <worktree> <k> <PROP> <round> [<extra PROP> ...]

Confirms one sub-agent change in its scratch worktree (tools/confirm_seed.sh), runs the quick tier of the property's
check (and of any extra checks) against the worktree with the change applied (tools/try_seed_wt.sh), and stores the
change with what was run under /verif/seeded/S<n>_<k>_<PROP>/.  Nothing here touches /repo.
"""
import json, os, shutil, subprocess, sys

wt, k, prop, rnd = sys.argv[1:5]
extra = sys.argv[5:]
n = os.path.basename(wt.rstrip('/')).split('_')[-1]
sd = os.path.join(wt, 'seed_out', k)
meta = json.load(open(os.path.join(sd, 'meta.json')))
confirm = subprocess.run(['sh', '/verif/tools/confirm_seed.sh', wt, sd], capture_output=True, text=True).stdout.strip().splitlines()[-1]
ok = 'demo_clean_exit=0' in confirm and 'demo_patched_exit=0' not in confirm and 'stable_tests=42/42' in confirm
results = []
if ok:
    out = subprocess.run(['sh', '/verif/tools/try_seed_wt.sh', wt, os.path.join(sd, 'patch.diff'), 'quick', prop] + extra,
                         capture_output=True, text=True).stdout
    results = [l for l in out.splitlines() if l.startswith('RESULT')]
sid = 'S%s_%s_%s' % (n, k, prop)
dst = os.path.join('/verif/seeded', sid)
os.makedirs(dst, exist_ok=True)
for f in os.listdir(sd):
    if os.path.isfile(os.path.join(sd, f)) and f != 'meta.json' and os.path.getsize(os.path.join(sd, f)) < 200000:
        shutil.copy(os.path.join(sd, f), dst)
detected = any('exit=1' in r for r in results)
json.dump({
    'id': sid, 'breaks_property': prop, 'round': int(rnd),
    'author': 'independent sub-agent (saw only the property text and a scratch worktree)',
    'summary': meta.get('summary'), 'needs_to_manifest': meta.get('needs'), 'files': meta.get('files'),
    'demo_cmd': meta.get('demo_cmd'), 'confirmed_by_me': confirm, 'confirmed': ok,
    'patch_applies_to_repo_head': subprocess.run(['git', '-C', '/repo', 'apply', '--check', os.path.join(sd, 'patch.diff')]).returncode == 0,
    'results_first_pass': results, 'detected_first_pass': detected, 'agent_meta': meta,
}, open(os.path.join(dst, 'meta.json'), 'w'), indent=1)
print(sid, confirm)
for r in results:
    print('   ', r)
