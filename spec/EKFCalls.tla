------------------------------ MODULE EKFCalls ------------------------------
(***************************************************************************)
(* The call protocol of a compiled Python model / filter object, as the    *)
(* listed properties state it for ONE call (C01, C04, C05, C06, C09):      *)
(*                                                                         *)
(*   a call whose inputs carry a claim (well-typed, finite, bounded, and   *)
(*   for filter calls a covariance that is valid in the strict measure)    *)
(*     - is never refused and never raises                 (C09 / C01)     *)
(*     - leaves every input object unmodified              (C04 / C05)     *)
(*     - returns a valid covariance                        (C09)           *)
(*     - returns the values the definition prescribes      (C01, C04, C05) *)
(*     - an update is discarded iff the gate says so, and a discarded      *)
(*       update returns the estimate it was given, bit for bit (C06)       *)
(*                                                                         *)
(* The quantities are floating-point; TLC sees their PROJECTION:           *)
(*   match in {"yes","no","skip"}  agreement with Derive.tla's trees       *)
(*                                 folded by FilterMath's formulas         *)
(*   gate  in {"off","accept","reject","band","skip"}                      *)
(*                                 position of NIS against k*sqrt(2m)+m    *)
(*                                 ("band": within rounding of it)         *)
(* `calls` counts the calls that carried a claim.                          *)
(***************************************************************************)
EXTENDS Integers, Sequences, TLC

VARIABLES calls
Init == calls = 0

Match == {"yes", "skip"}

Model(e) == /\ e.outcome = "ok" /\ e.kept /\ e.match \in Match
            /\ calls' = calls + 1
Predict(e) == /\ e.outcome = "ok" /\ e.kept /\ e.valid_out /\ e.match \in Match
              /\ calls' = calls + 1
\* an accepted update: the gate is off, or says accept, or the reading sits within rounding of the boundary
UpdateAccept(e) == /\ e.outcome = "ok" /\ e.kept /\ e.valid_out
                   /\ e.gate \in {"off", "accept", "band", "skip"}
                   /\ e.match \in Match
                   /\ calls' = calls + 1
\* a discarded update: only when the gate is on and says reject (or boundary); the estimate comes back untouched
UpdateReject(e) == /\ e.outcome = "ok" /\ e.kept
                   /\ e.gate \in {"reject", "band", "skip"}
                   /\ e.gate_on
                   /\ e.unchanged
                   /\ calls' = calls + 1
=============================================================================
