"""Process pool for replays: each worker imports formak once (about 2 s) and then runs tasks."""
import multiprocessing as mp
import os
import signal
import sys
import traceback

_mods = {}


def _init():
    sys.path.insert(0, os.path.dirname(os.path.abspath(__file__)))
    import build
    ui, python, cpp, common, runtime, exceptions = build.import_formak()
    _mods.update(ui=ui, python=python, cpp=cpp, common=common, runtime=runtime, exceptions=exceptions)
    # the library prints diagnostics on some paths; keep worker stdout quiet
    sys.stdout = open(os.devnull, "w")
    import warnings
    warnings.simplefilter("ignore")


class _Timeout(BaseException):
    """raised by the per-task alarm; a BaseException so that no `except Exception` in a replay can mistake it for a
    failure of the code under test"""


def _alarm(signum, frame):
    raise _Timeout()


def call(task):
    """task = (module, function, args, timeout_s).  Returns ('ok', result) | ('timeout', None) | ('error', text)."""
    modname, fname, args, timeout = task
    signal.signal(signal.SIGALRM, _alarm)
    signal.alarm(int(timeout))
    try:
        import importlib
        mod = importlib.import_module(modname)
        return ("ok", getattr(mod, fname)(_mods, *args))
    except _Timeout:
        return ("timeout", None)
    except Exception:
        return ("error", traceback.format_exc()[-3000:])
    finally:
        signal.alarm(0)


def run_tasks(tasks, procs=None, chunksize=1):
    procs = procs or min(16, os.cpu_count() or 4)
    procs = max(1, min(procs, len(tasks)))
    if not tasks:
        return []
    ctx = mp.get_context("fork")
    with ctx.Pool(procs, initializer=_init) as pool:
        return pool.map(call, tasks, chunksize=chunksize)
