---- MODULE MC_Binding ----
EXTENDS Binding
cPool == {"a", "B", "a_", "_a", "ab"}
cStrangers == {"A", "b", "w_"}
cVals == <<RI(2), RQ(-3, 2), RI(0), RI(5), RQ(1, 4)>>
====
