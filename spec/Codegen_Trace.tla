---------------------------- MODULE Codegen_Trace ----------------------------
(***************************************************************************)
(* Trace validation for C15: every trace is the sequence of generation     *)
(* events recorded for ONE definition (across presentations and hash       *)
(* seeds, each seed in a fresh process).  An event carries, per artefact   *)
(* kind (header, source, python layout), the index of its digest among the *)
(* distinct digests seen for that definition.  The trace is a behaviour    *)
(* of the write-once registers iff all digests of a kind are equal.        *)
(***************************************************************************)
EXTENDS Codegen, IOUtils, TLCExt

Traces == JsonDeserialize(IOEnv.TRACE_FILE)

VARIABLES tid, l, regH, regS, regL
tvars == <<tid, l, regH, regS, regL, pres, cur, done>>

ASSUME \A t \in 1..Len(Traces) : TLCSet(t, 0)

TInit == /\ tid \in 1..Len(Traces) /\ l = 1
         /\ regH = NoDigest /\ regS = NoDigest /\ regL = NoDigest
         /\ pres = <<>> /\ cur = <<>> /\ done = FALSE

TGenerate ==
  /\ l <= Len(Traces[tid])
  /\ LET e == Traces[tid][l] IN
     /\ e.event = "Generate"
     /\ GenerateOK(regH, e.header) /\ GenerateOK(regS, e.source) /\ GenerateOK(regL, e.layout)
     /\ regH' = GenerateNext(regH, e.header)
     /\ regS' = GenerateNext(regS, e.source)
     /\ regL' = GenerateNext(regL, e.layout)
  /\ l' = l + 1
  /\ UNCHANGED <<tid, pres, cur, done>>

TNext == TGenerate

Reach == TLCSet(tid, IF TLCGet(tid) < l THEN l ELSE TLCGet(tid))

Post == \A t \in 1..Len(Traces) :
          IF TLCGet(t) = Len(Traces[t]) + 1 THEN PrintT(<<"ACCEPT", t>>)
          ELSE PrintT(<<"REJECT", t, TLCGet(t)>>)
=============================================================================
