INIT Init
NEXT Next
CONSTANTS
  Quats <- cQuatsGen
  Vecs <- cVecsGen
  Vecs2 <- cVecsGen
  Dts <- cDts
  Gs <- cGs
  MaxPoints = 8
  EmitOn = TRUE
INVARIANT InvNormMultiplicative
INVARIANT InvRotationPreservesLength
CHECK_DEADLOCK FALSE
