----------------------------- MODULE FilterMath -----------------------------
(***************************************************************************)
(* The denotation of a (valid) FormaK definition.  Everything is keyed by  *)
(* NAME: a state / control / calibration assignment is a function          *)
(* Name -> Rational, a covariance or Jacobian is Name -> (Name -> Rational).*)
(* Positions appear only inside this module, to reuse Linalg's positional  *)
(* matrices; the order used for that (`Ord`) is arbitrary and cancels out. *)
(*                                                                         *)
(* A definition d is a record                                              *)
(*   state, control, calib : sets of names                                 *)
(*   update  : [state -> Expr]         calmap : [calib -> Rational]        *)
(*   pnoise  : [control -> Rational]   (diagonal process noise, by name)   *)
(*   sensors : [key -> [reading -> Expr]]                                  *)
(*   snoise  : [key -> [reading -> Rational]]                              *)
(*   k       : editing threshold (Rational) or NoGate                      *)
(***************************************************************************)
EXTENDS Names, Expr, Linalg

NoGate == <<0, 0>>      \* innovation filtering disabled (Config.innovation_filtering = None)

Ord(S) == SortNames(S)

ProcEnv(d, dt, x, u) == ("dt" :> dt) @@ x @@ d.calmap @@ u
SensEnv(d, x)        == x @@ d.calmap

\* fully evaluated named vectors / matrices (see Linalg!MkMat)
MkNVec(S, F(_))       == TLCEval([n \in S |-> F(n)])
MkNMat(R, C, F(_, _)) == TLCEval([r \in R |-> TLCEval([c \in C |-> F(r, c)])])

ToMat(F, rows, cols) == MkMat(Len(rows), Len(cols), LAMBDA i, j : F[rows[i]][cols[j]])
ToVec(f, names)      == MkVec(Len(names), LAMBDA i : f[names[i]])
FromMat(M, rows, cols) ==
  MkNMat(RangeOf(rows), RangeOf(cols), LAMBDA r, c : M[IndexOf(r, rows)][IndexOf(c, cols)])
FromVec(v, names)    == MkNVec(RangeOf(names), LAMBDA n : v[IndexOf(n, names)])

\* ---- process model ------------------------------------------------------
Step(d, dt, x, u)    == LET env == TLCEval(ProcEnv(d, dt, x, u)) IN
                        MkNVec(d.state, LAMBDA s : Eval(d.update[s], env))
ProcJacTree(d)       == MkNMat(d.state, d.state, LAMBDA r, c : Diff(d.update[r], c))
CtrlJacTree(d)       == MkNMat(d.state, d.control, LAMBDA r, c : Diff(d.update[r], c))
ProcJac(d, dt, x, u) == LET env == TLCEval(ProcEnv(d, dt, x, u)) IN
                        MkNMat(d.state, d.state, LAMBDA r, c : Eval(Diff(d.update[r], c), env))
CtrlJac(d, dt, x, u) == LET env == TLCEval(ProcEnv(d, dt, x, u)) IN
                        MkNMat(d.state, d.control, LAMBDA r, c : Eval(Diff(d.update[r], c), env))
\* process noise matrix M, by control name (diagonal)
NoiseM(d) == MkNMat(d.control, d.control, LAMBDA r, c : IF r = c THEN d.pnoise[r] ELSE Zero)

\* P' = G P G^T + V M V^T
PredictF(d, dt, est, u) ==
  LET so == TLCEval(Ord(d.state))  co == TLCEval(Ord(d.control))
      n == Len(so) m == Len(co)
      G == ToMat(ProcJac(d, dt, est.x, u), so, so)
      V == ToMat(CtrlJac(d, dt, est.x, u), so, co)
      P == ToMat(est.P, so, so)
      M == ToMat(NoiseM(d), co, co)
      GPG == MatMulD(MatMulD(G, P, n, n, n), TrD(G, n, n), n, n, n)
      VMV == MatMulD(MatMulD(V, M, n, m, m), TrD(V, n, m), n, m, n)
  IN [x |-> Step(d, dt, est.x, u), P |-> FromMat(MAdd(GPG, VMV), so, so)]

\* ---- sensor model -------------------------------------------------------
Readings(d, key)  == DOMAIN d.sensors[key]
Pred(d, key, x)   == LET env == TLCEval(SensEnv(d, x)) IN
                     MkNVec(Readings(d, key), LAMBDA r : Eval(d.sensors[key][r], env))
SensJac(d, key, x) == LET env == TLCEval(SensEnv(d, x)) IN
                      MkNMat(Readings(d, key), d.state, LAMBDA r, c : Eval(Diff(d.sensors[key][r], c), env))
NoiseQ(d, key)    == MkNMat(Readings(d, key), Readings(d, key),
                            LAMBDA r, c : IF r = c THEN d.snoise[key][r] ELSE Zero)

\* everything the Kalman correction computes, as one record (positional inside)
Kalman(d, key, est, z) ==
  LET so == TLCEval(Ord(d.state))  ro == TLCEval(Ord(Readings(d, key)))
      n == Len(so)  m == Len(ro)
      H == ToMat(SensJac(d, key, est.x), ro, so)
      P == ToMat(est.P, so, so)
      Q == ToMat(NoiseQ(d, key), ro, ro)
      PHt == MatMulD(P, TrD(H, m, n), n, n, m)
      S == MAdd(MatMulD(H, PHt, m, n, m), Q)
      Si == MInv(S)
      y == VSub(ToVec(z, ro), ToVec(Pred(d, key, est.x), ro))
      K == MatMulD(PHt, Si, n, m, m)
      nis == TLCEval(Quad(y, Si))
      xn == VAdd(ToVec(est.x, so), MatVec(K, y))
      Pn == MSub(P, MatMulD(MatMulD(K, H, n, m, n), P, n, n, n))
  IN [innov |-> FromVec(y, ro), S |-> FromMat(S, ro, ro), Sinv |-> FromMat(Si, ro, ro),
      nis |-> nis, m |-> m, detS |-> Det(S),
      x |-> FromVec(xn, so), P |-> FromMat(Pn, so, so)]

(***************************************************************************)
(* The editing gate, decided exactly over the reals without a square root: *)
(*    nis > k*sqrt(2m) + m   <=>   nis - m > 0  /\  (nis - m)^2 > 2 m k^2  *)
(* (k > 0).                                                                *)
(***************************************************************************)
Gate(k, m, nis) ==
  IF k = NoGate THEN FALSE
  ELSE LET e == RSub(nis, RI(m)) IN
       RSign(e) > 0 /\ RLess(RMul(RMul(RI(2 * m), k), k), RMul(e, e))

\* badness of the gate computation itself
\* (comparisons cross-multiply: both sides must fit the window)
GateBad(k, m, nis) ==
  k # NoGate /\ LET e == RSub(nis, RI(m)) IN
                ~Fits(e) \/ ~Fits(RMul(RMul(RI(2 * m), k), k)) \/ ~Fits(RMul(e, e))
\* exactly on the boundary (must be KEPT: the test is strict)
GateOnBoundary(k, m, nis) ==
  k # NoGate /\ LET e == RSub(nis, RI(m)) IN RSign(e) > 0 /\ RMul(RMul(RI(2 * m), k), k) = RMul(e, e)

\* ---- helpers over named structures ---------------------------------------
NVecBad(f)  == \E n \in DOMAIN f : IsBad(f[n])
NMatBad(F)  == \E r \in DOMAIN F : \E c \in DOMAIN F[r] : IsBad(F[r][c])
NVecOver(f) == \E n \in DOMAIN f : IsOver(f[n])
NMatOver(F) == \E r \in DOMAIN F : \E c \in DOMAIN F[r] : IsOver(F[r][c])
NSymmetric(F) == \A r \in DOMAIN F : \A c \in DOMAIN F : F[r][c] = F[c][r]
NPSD(F, names) == PSD(ToMat(F, Ord(names), Ord(names)))
=============================================================================
