"""C07 -- the Python filter and the generated C++ filter agree step for step."""
import json

import cppcheck
import pyrep
import scen
from build import Definition
from common import finish

LEVEL = "model_checking"
ASSUME = ["both implementations are stepped through the SAME behaviour of Formak.tla; each is compared with the spec's exact values "
          "and the two projected states with each other (1e-9 relative)",
          "Eigen stand-in + g++ 12 for the C++ side; values set and read by field name on both sides"]


def _cmp_traces(tp, tc, steps):
    """differential comparison python vs c++ per step -> list of (step, what, name, py, cpp)"""
    out = []
    for i, (a, b, st) in enumerate(zip(tp, tc, steps)):
        if not a or not b:
            continue
        for what in ("x", "innov", "xn", "h"):
            if what in a and what in b and isinstance(a[what], dict):
                for n, v in a[what].items():
                    if n in b[what] and not pyrep.close(b[what][n], v):
                        out.append((i, what, n, v, b[what][n]))
        for what in ("P", "G", "V", "H"):
            if what in a and what in b:
                for r, row in a[what].items():
                    for c, v in row.items():
                        w = b[what].get(r, {}).get(c)
                        if w is not None and not pyrep.close(w, v):
                            out.append((i, what, "%s,%s" % (r, c), v, w))
        if st["act"] == "Update":
            py_rej = st["outcome"] == "rejected"   # python side already compared with the spec's outcome
            cpp_unch = b.get("unchanged")
            if py_rej and cpp_unch != 1:
                out.append((i, "decision", st["key"], "rejected", "accepted"))
    return out


def run(ctx):
    quick = ctx.quick
    n = 24 if quick else 480
    scns, stats = scen.generate(ctx, None, ("MC_EKF", "MC_C07_sim.cfg"), sim_num=n, sim_depth=90)
    if scns is None:
        ctx.violation("spec-invariant", stats["tlc_violation"][:800], stats)
        return finish(ctx, LEVEL, {"states": 1, "transitions": 1, "traces_validated_against_impl": 0, "samples": [stats]}, ASSUME)
    import workers
    tasks = []
    for s in scns:
        clean = {k: v for k, v in s.items() if not k.startswith("_")}
        for cse in (False, True):
            tasks.append(("tasks", "py_replay", (clean, cse, None, True, True), 120))
    ctx.log("replaying %d scenarios into Python" % len(scns))
    pres = workers.run_tasks(tasks, procs=ctx.cores)
    pyres = []
    k = 0
    for s in scns:
        for cse in (False, True):
            pyres.append((s, cse) + tuple(pres[k]))
            k += 1
    c_py = scen.record_results(ctx, pyres, key_prefix="py:")
    cres = cppcheck.replay_cpp(ctx, scns, cse_settings=(False, True), kind="ekf", keep_trace=True)
    c_cpp = cppcheck.record(ctx, cres, key_prefix="cpp:")
    # differential
    ndiff = 0
    bykey = {(id(r["scn"]), r["cse"]): r for r in cres}
    for s, cse, status, res in pyres:
        r = bykey.get((id(s), cse))
        if status != "ok" or r is None or r["status"] != "ok" or res["trace"] is None or r.get("trace") is None:
            continue
        diffs = _cmp_traces(res["trace"], r["trace"], s["steps"])
        ndiff += 1
        if diffs:
            i, what, name, a, b = diffs[0]
            ctx.violation("py-vs-cpp:" + what, "cse=%s step=%d %s[%s]: python=%r c++=%r" % (cse, i, what, name, a, b),
                          {"scenario": {k: v for k, v in s.items() if not k.startswith("_")}, "cse": cse, "diffs": diffs[:10]})
    defs = {}
    acts = {}
    for s in scns:
        d = Definition(s["def"])
        defs[d.canonical()] = d.nontrivial()
        for st in s["steps"]:
            kk = st["act"] + (":" + st["outcome"] if "outcome" in st else "")
            acts[kk] = acts.get(kk, 0) + 1
    cov = {"states": stats["states"], "transitions": stats["transitions"],
           "traces_validated_against_impl": len(scns) * 2,
           "samples": [scen.summarise(s) for s in scns[:2]],
           "programs": len(defs), "distinct_nontrivial": sum(1 for v in defs.values() if v),
           "evaluations": c_py["values_compared"] + c_cpp["cpp_values_compared"],
           "differential_comparisons": ndiff, "actions_replayed": acts,
           "rule": "behaviour = definition + SetEstimate / Predict / Update (accepted and rejected) / evaluation steps; replayed into the Python "
                   "EKF and the generated C++ EKF with CSE off and on; non-trivial = shared sub-term or >= 2 symbols",
           "tlc_runs": stats["tlc_runs"], "python": c_py, "cpp": c_cpp}
    return finish(ctx, LEVEL, cov, ASSUME)


def replay(ctx, path):
    body = json.load(open(path))
    s = body["payload"]["scenario"]
    s["_id"] = "replay"
    cse = body["payload"].get("cse", True)
    r1 = scen.replay_all(ctx, [s], cse_settings=(cse,), force_ekf=True)
    scen.record_results(ctx, r1, key_prefix="py:")
    r2 = cppcheck.replay_cpp(ctx, [s], cse_settings=(cse,), kind="ekf")
    cppcheck.record(ctx, r2)
    for v in ctx.violations:
        print("VIOLATION property=%s replay=%s" % (ctx.prop, path))
        print("  " + v["detail"])
        return 1
    print("replay: no violation")
    return 0
