INIT Init
NEXT Next
CONSTANTS
  Quats <- cQuatsAxis
  Vecs <- cVecsAxis
  Vecs2 <- cVecs2Axis
  Dts <- cDt1
  Gs <- cG1
  MaxPoints = 1
  EmitOn = TRUE
INVARIANT InvNormMultiplicative
INVARIANT InvRotationPreservesLength
CHECK_DEADLOCK FALSE
