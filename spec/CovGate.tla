------------------------------- MODULE CovGate -------------------------------
(***************************************************************************)
(* C09 as a protocol: the filter is a gate that takes an estimate whose    *)
(* covariance is `valid` (symmetric positive semi-definite up to rounding  *)
(* relative to its magnitude -- decided by the projection, TLC has no      *)
(* floating point) and either returns a new estimate or refuses.           *)
(*                                                                         *)
(*      valid  =>  outcome # "refused"  /\  valid'                         *)
(*                                                                         *)
(* along any history of predictions and sensor updates.  The exact part    *)
(* (the update forms themselves preserve validity) is the invariant        *)
(* InvCovValid of Formak.tla, checked with exact rationals.                *)
(***************************************************************************)
EXTENDS Integers, Sequences, TLC, Json

VARIABLES valid, steps
vars == <<valid, steps>>

Init == valid = TRUE /\ steps = 0

\* a prediction / update on a valid covariance is never refused and yields a valid covariance
Step(kind) == /\ valid /\ valid' = TRUE /\ steps' = steps + 1
\* once an invalid covariance was produced nothing more is claimed
Next == Step("predict") \/ Step("update")
InvValid == valid
=============================================================================
