"""C11 -- tick = fold readings in order, hold at last reading, report at output time."""
import json
import os

import cppbuild
import mfcheck
from common import finish

LEVEL = "model_checking"
ASSUME = ["free-monoid recording filters (Python duck type, C++ Impl): any concrete filter is a homomorphic image",
          "prediction steps are compared by net displacement per run of steps here (their sizing is C10's business)",
          "dyadic time grid, g++ 12 -std=c++20, real runtime.py / ManagedFilter.h"]


def norm(ops):
    return [tuple(o) for o in mfcheck.collapse(ops)]


def run(ctx):
    scns, stats = mfcheck.generate(ctx, ctx.quick)
    if scns is None:
        ctx.violation("spec-invariant", stats["tlc_violation"][:500], stats)
        return finish(ctx, LEVEL, {"states": 1, "transitions": 1, "traces_validated_against_impl": 0, "samples": [stats]}, ASSUME)
    ticks_checked = 0
    pres = mfcheck.replay_python(ctx, scns)
    py_rets = {}
    for s, o in zip(scns, pres):
        mm = o["mismatch"]
        ticks_checked += o["ticks"]
        if not mm:
            continue
        w = mm["what"]
        if w == "returned-call-sequence":
            if norm(mm["expected"]) != norm(mm["observed"]):
                ctx.violation("py:returned-sequence", "tick %d: expected %s got %s" % (mm["tick"], norm(mm["expected"])[:6], norm(mm["observed"])[:6]),
                              {"scenario": s, "mismatch": mm})
        elif w == "held-estimate":
            if mm["expected"][0] != mm["observed"][0] or norm(mm["expected"][1]) != norm(mm["observed"][1]):
                ctx.violation("py:held-estimate", "tick %d: held expected t=%s %s got t=%s %s" %
                              (mm["tick"], mm["expected"][0], norm(mm["expected"][1])[:6], mm["observed"][0], norm(mm["observed"][1])[:6]),
                              {"scenario": s, "mismatch": mm})
        else:
            ctx.violation("py:" + w, str(mm.get("observed"))[:300], {"scenario": s, "mismatch": mm})
    cres = mfcheck.replay_cpp(ctx, scns)
    for (hc, hk), r in sorted(cres.items()):
        if r["build"] is not None:
            ctx.violation("cpp:build:control=%d,calibration=%d" % (hc, hk), r["build"][-600:], {"combo": [hc, hk], "stderr": r["build"]})
            continue
        for si, s in enumerate(r["scns"], start=1):
            for ti, tk in enumerate(s["ticks"], start=1):
                if tk["refused"] or (hc and not tk["ctl"]):
                    continue
                obs = r["rets"].get((si, ti))
                exp = mfcheck.expected_ops(tk, r["keyidx"], has_control=bool(hc))
                ticks_checked += 1
                if obs is None or norm(exp) != norm(obs):
                    kinds = {o[0] for o in (obs or [])}
                    key = "cpp:wrong-calibration" if kinds & {"X", "Y"} else "cpp:returned-sequence"
                    ctx.violation(key, "control=%d calibration=%d tick %d: expected %s got %s" % (hc, hk, ti, norm(exp)[:6], norm(obs or [])[:6]),
                                  {"scenario": s, "tick": ti, "combo": [hc, hk], "expected": exp, "observed": obs})
                    break
    # negative compile tests: the statically refused calls
    jobs = []
    for hc in (0, 1):
        for neg in (0, 1, 2):
            jobs.append({"sources": ["/verif/cxx/mf_negative.cpp"], "out": os.path.join(ctx.work, "neg_%d_%d" % (hc, neg)),
                         "defines": ["HAS_CONTROL=%d" % hc, "NEG=%d" % neg], "_hc": hc, "_neg": neg})
    res = cppbuild.compile_many(jobs)
    neg_checked = 0
    for job, (ok, err) in zip(jobs, res):
        neg_checked += 1
        if job["_neg"] == 0 and not ok:
            ctx.violation("cpp:legal-tick-rejected:control=%d" % job["_hc"], err[-500:], {"job": job, "stderr": err})
        if job["_neg"] > 0 and ok:
            what = ("tick without control accepted on a filter with control" if job["_hc"]
                    else "tick with control accepted on a filter without control")
            ctx.violation("cpp:illegal-tick-compiles:control=%d,variant=%d" % (job["_hc"], job["_neg"]), what, {"job": job})
    nontriv = sum(1 for s in scns if sum(len(tk["rs"]) for tk in s["ticks"]) >= 2)
    cov = {"states": stats["states"], "transitions": stats["transitions"],
           "traces_validated_against_impl": len(scns) * 3,
           "samples": scns[:1] + scns[-1:],
           "evaluations": ticks_checked, "distinct_nontrivial": nontriv,
           "negative_compile_tests": neg_checked,
           "rule": "behaviour = history of ticks; non-trivial = at least two readings in the history (order, hold and report "
                   "semantics are exercised); replayed into runtime.py and ManagedFilter.h (4 tag combinations)",
           "exhaustive": bool(stats.get("exhaustive_replayed_all")),
           "exhaustive_scope": "MC_MF_E / MC_MF_Eq: all histories of <=2 ticks x <=2 readings on 7 (5) time points model-checked for "
                               "InvGhost (reading-less ticks never matter), InvReport, ActRefused, ActHeldTime; MC_MF_E1 replayed",
           "tlc_runs": stats["tlc_runs"]}
    return finish(ctx, LEVEL, cov, ASSUME)


def replay(ctx, path):
    body = json.load(open(path))
    s = body["payload"].get("scenario")
    if s is None:
        return 2
    pres = mfcheck.replay_python(ctx, [s])
    print(json.dumps(pres[0], default=str)[:1000])
    return 1 if pres[0]["mismatch"] else 0
