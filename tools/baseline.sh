#!/bin/sh
# Run the repository's pinned baseline with the hook guard OFF and report whether the 42 stable tests pass.
out=$(mktemp /tmp/baseline.XXXXXX.xml)
cd /repo && env -u FORMAK_VERIF /venv/bin/python -m pytest -ra -q -p no:cacheprovider --timeout=900 --continue-on-collection-errors --junitxml=$out >/tmp/baseline.log 2>&1
/venv/bin/python - "$out" <<'PY'
import json, sys, xml.etree.ElementTree as ET
base = json.load(open('/root/.vp/BASELINE.json'))
stable = set(base['stable_pass'])
t = ET.parse(sys.argv[1])
res = {}
for tc in t.iter('testcase'):
    name = tc.get('classname', '') + '::' + tc.get('name', '')
    bad = any(ch.tag in ('failure', 'error', 'skipped') for ch in tc)
    res[name] = not bad
passed = {n for n, ok in res.items() if ok}
missing = sorted(stable - passed)
print("passed=%d stable_passing=%d/%d newly_passing=%d" % (len(passed), len(stable & passed), len(stable), len(passed - stable)))
for m in missing:
    print("MISSING", m)
sys.exit(1 if missing else 0)
PY
rc=$?
rm -f $out
exit $rc
