"""Engine shared by C10 / C11 (/ C12's runtime part): ManagedFilter.tla behaviours replayed into
runtime.py (recording stand-in) and ManagedFilter.h (recording Impl, four tag combinations)."""
import random

import mfcpp
import mfrep
import tlc
import workers

UNIT = mfrep.UNIT


def pproj(ops):
    return [op[1] for op in ops if op[0] in ("P", "X")]


def collapse(ops):
    """Merge runs of prediction steps (same control token) into their net displacement."""
    out = []
    for op in ops:
        if op[0] in ("P", "X"):
            if out and out[-1][0] == op[0] and out[-1][2] == op[2]:
                out[-1] = (op[0], out[-1][1] + op[1], op[2])
            else:
                out.append((op[0], op[1], op[2]))
        else:
            out.append(tuple(op))
    return [o for o in out]


def generate(ctx, quick, want_theorems=True):
    stats = {"states": 0, "transitions": 0, "tlc_runs": []}
    rnd = random.Random(ctx.seed)
    scns = []
    if want_theorems:
        r = tlc.run("MC_MF_Eq" if quick else "MC_MF_E", workers=ctx.cores, timeout=1200, coverage=True)
        if r.violation:
            return None, {"tlc_violation": r.violation, "module": "MC_MF_E"}
        missing = tlc.check_coverage(r, ["AddReading", "Tick", "TickRefused"])
        if missing:
            raise tlc.TLCError("vacuity: %s never taken" % missing)
        stats["states"] += r.distinct
        stats["transitions"] += r.states
        stats["tlc_runs"].append({"module": "MC_MF_E", "mode": "exhaustive", **r.summary()})
        ctx.log("TLC MC_MF_E: %d distinct states, invariants + action properties hold (%.1fs)" % (r.distinct, r.wall_s))
    r = tlc.run("MC_MF_E1", workers=ctx.cores, timeout=900)
    if r.violation:
        return None, {"tlc_violation": r.violation, "module": "MC_MF_E1"}
    stats["states"] += r.distinct
    stats["transitions"] += r.states
    stats["tlc_runs"].append({"module": "MC_MF_E1", "mode": "exhaustive", **r.summary()})
    e1 = r.printed
    stats["exhaustive_scenarios"] = len(e1)
    if quick and len(e1) > 1200:
        e1 = rnd.sample(e1, 1200)
        stats["exhaustive_replayed_all"] = False
    else:
        stats["exhaustive_replayed_all"] = True
    scns += e1
    nsim = 240 if quick else 20000
    r = tlc.run("MC_MF_sim", mode="sim", workers=8, num=max(1, nsim // 8), depth=40, seed=ctx.seed + 1, timeout=1200)
    if r.violation:
        return None, {"tlc_violation": r.violation, "module": "MC_MF_sim"}
    stats["states"] += r.states
    stats["transitions"] += r.states
    stats["tlc_runs"].append({"module": "MC_MF_sim", "mode": "simulate", "behaviours": r.traces, **r.summary()})
    scns += r.printed
    ctx.log("ManagedFilter scenarios: %d single-tick (exhaustive family) + %d simulated histories" % (len(e1), len(r.printed)))
    return scns, stats


def replay_python(ctx, scns):
    chunks = [scns[i::ctx.cores] for i in range(ctx.cores)]
    chunks = [c for c in chunks if c]
    res = workers.run_tasks([("tasks", "mf_replay_batch", (c,), 600) for c in chunks], procs=ctx.cores)
    out = {}
    for c, (status, r) in zip(chunks, res):
        if status != "ok":
            raise RuntimeError("python MF replay failed: %s %s" % (status, r))
        for s, o in zip(c, r):
            out[id(s)] = o
    return [out[id(s)] for s in scns]


def replay_cpp(ctx, scns):
    """-> {(hc,hk): {"build": None|stderr, "rets": {(scn_index, tick): ops}}}; scenario applies to a combo
    with hc == scenario.hasControl."""
    builds = mfcpp.build_all(ctx.work)
    keys = sorted({r["key"] for s in scns for tk in s["ticks"] for r in tk["rs"]})
    keyidx = {k: i for i, k in enumerate(keys)}
    out = {}
    for (hc, hk), (exe, err) in builds.items():
        sel = [s for s in scns if bool(s["hasControl"]) == bool(hc)]
        if exe is None:
            out[(hc, hk)] = {"build": err, "rets": {}, "scns": sel, "keyidx": keyidx}
            continue
        # the calibrated combinations replay the histories 2^20 s later on the time axis (expected call sequences are unchanged)
        rets = mfcpp.run_combo(exe, sel, keyidx, offset=(2.0 ** 20 if hk else 0.0))
        out[(hc, hk)] = {"build": None, "rets": rets, "scns": sel, "keyidx": keyidx}
    return out


def expected_ops(tk, keyidx=None, has_control=True):
    """has_control=False: the C++ filter has no ControlT, a control cannot be supplied, so the control
    token of every step is unobservable (0)."""
    ops = []
    for op in tk["ret"]:
        if op[0] == "P":
            ops.append(("P", op[1] * UNIT, op[2] if has_control else 0))
        else:
            ops.append(("S", keyidx[op[1]] if keyidx is not None else op[1], op[2]))
    return ops


# ------------------------------------------------------------------ decimal time grid (C10 b) ----
def _cap(x):
    return int(min(x, 10 ** 9))


def travel_events(ops, t0, reading_times, n_prev, out_time, max_dt):
    """Split a returned call sequence at its sensor updates; segment j is the travel to reading j, the tail the travel to
    the output time.  Returns the PlanOK events of the travels made in THIS tick (readings n_prev.. and the tail)."""
    import math
    from fractions import Fraction
    segs = [[]]
    for op in ops:
        if op[0] in ("S", "Y"):
            segs.append([])
        else:
            segs[-1].append(op[1])
    if len(segs) != len(reading_times) + 1:
        return None
    starts = [t0] + list(reading_times)
    targets = list(reading_times) + [out_time]
    events = []
    for j in list(range(n_prev, len(reading_times))) + [len(reading_times)]:
        delta = Fraction(targets[j]) - Fraction(starts[j])
        dirn = (delta > 0) - (delta < 0)
        steps = []
        tot = Fraction(0)
        for dt in segs[j]:
            f = Fraction(dt)
            tot += f
            exc = max(Fraction(0), abs(f) - Fraction(max_dt))
            steps.append({"sgn": (f > 0) - (f < 0), "excess_ps": _cap(math.ceil(exc * 10 ** 12))})
        tiny = abs(delta) < Fraction(1, 10 ** 9)
        events.append({"dir": 0 if (dirn == 0) else dirn, "nsteps": len(steps), "nwrong": sum(1 for st_ in steps if st_["sgn"] != dirn),
                       "max_excess_ps": max([st_["excess_ps"] for st_ in steps] or [0]),
                       "resid_ps": _cap(math.ceil(abs(tot - delta) * 10 ** 12)),
                       "tiny": bool(tiny), "start": starts[j], "target": targets[j], "dts": segs[j]})
        # a travel shorter than the slack may legitimately be skipped or taken; direction is only meaningful beyond the slack
        if tiny and not steps:
            events[-1]["dir"] = 0 if dirn == 0 else dirn
    return events


TRACE_KEYS = ("dir", "nsteps", "nwrong", "max_excess_ps", "resid_ps")
BAD_EVENT = {"dir": 9, "nsteps": 0, "nwrong": 1, "max_excess_ps": 10 ** 9, "resid_ps": 10 ** 9}


class LongRec:
    """recording filter for very long moves: appends step lengths to one list (no per-step copies)"""

    def __init__(self, control_size, max_dt_sec):
        from types import SimpleNamespace
        self.control_size = control_size
        self.config = SimpleNamespace(max_dt_sec=max_dt_sec, innovation_filtering=None)
        self.dts = []

    def process_model(self, dt, state, covariance, control=None):
        self.dts.append(dt)
        return (state, covariance)


def long_moves_python(mods, moves, unit):
    """moves: (maxn, t0 seconds, target seconds, with control); max_dt_sec = maxn * unit"""
    runtime = mods["runtime"]
    out = []
    for maxn, t0, target, ctl in moves:
        ekf = LongRec(1 if ctl else 0, maxn * unit)
        mf = runtime.ManagedFilter(ekf, start_time=t0, state=None, covariance=None)
        mf.tick(target, control=(1 if ctl else None))
        ev = travel_events([("P", d, 0) for d in ekf.dts], t0, [], 0, target, maxn * unit)
        for e in ev:
            e["dts"] = e["dts"][:5] + ["..."] + e["dts"][-3:] if len(e["dts"]) > 10 else e["dts"]
        out.append(ev)
    return out


def decimal_python(mods, scns, unit):
    """Run each history on runtime.ManagedFilter with decimal times; return per scenario the list of travel events."""
    import mfrep
    runtime = mods["runtime"]
    out = []
    for s in scns:
        max_dt = s["max"] * unit
        ekf = mfrep.RecFilter(1 if s["hasControl"] else 0, max_dt)
        mf = runtime.ManagedFilter(ekf, start_time=s["t0"] * unit, state=(), covariance="P0")
        times = []
        evs = []
        ok = True
        for i, tk in enumerate(s["ticks"]):
            if tk["refused"]:
                continue
            objs = {}
            for r in tk["rs"]:
                objs.setdefault(r["id"], runtime.StampedReading(r["t"] * unit, r["key"], id=r["id"]))
            readings = [objs[r["id"]] for r in tk["rs"]]
            n_prev = len(times)
            times += [r["t"] * unit for r in tk["rs"]]
            try:
                ret = mf.tick(tk["out"] * unit, control=(i + 1) if tk["ctl"] else None, readings=readings)
            except Exception as e:
                evs.append({"exception": repr(e)[:200]})
                ok = False
                break
            te = travel_events(list(ret.state), s["t0"] * unit, times, n_prev, tk["out"] * unit, max_dt)
            if te is None:
                evs.append({"exception": "call sequence does not contain one update per reading"})
                break
            evs += te
        out.append(evs)
    return out
