"""Orchestrates spec -> generated-C++ replays: generate (pool) -> g++ (parallel) -> run -> compare."""
import os
import shutil

import cppbuild
import cpprep
import findings
import pyrep
import workers
from build import Definition, named, fl, interp


def _env(d, st):
    env = {c: fl(d.calmap[c]) for c in d.calib}
    for k in ("x", "u"):
        if k in st:
            env.update({n: fl(q) for n, q in named(st[k]).items()})
    if "dt" in st:
        env["dt"] = fl(st["dt"])
    return env


def compare(scn, vals, flags, errors, kind="ekf"):
    """-> (mismatches, values_compared, trace)"""
    d = Definition(scn["def"])
    out = []
    n = 0
    trace = []
    for e in errors:
        out.append(pyrep.Mismatch(step=-1, what="driver-flag", name=e, expected="consistent accessors", observed=e))
    lay = scn.get("layout")
    if lay:
        def order(role):
            m = vals.get((-1, "layout:" + role), {})
            return [k for k, _ in sorted(m.items(), key=lambda kv: kv[1])]
        checks = [("state", list(lay["state"])), ("control", list(lay["control"]))]
        if kind == "ekf":
            checks.append(("sensor", list(lay["sensors"])))
            for key, rs in named(lay["readings"]).items():
                checks.append(("reading:" + key, list(rs)))
        for role, exp in checks:
            if order(role) != exp:
                out.append(pyrep.Mismatch(step=-1, what="layout", name=role, expected=exp, observed=order(role)))
    if kind == "ekf":
        # configuration constants: the editing threshold of the definition (0.0 = disabled) and the default maximum step, exactly
        conf = vals.get((-1, "config"), {})
        gate = d.gate()
        want = {"innovation_filtering": float(gate) if gate is not None else 0.0, "max_dt_sec": 0.1}
        for k_, w_ in want.items():
            if conf.get(k_) != w_:
                out.append(pyrep.Mismatch(step=-1, what="config-constant", name=k_, expected=w_, observed=conf.get(k_)))
    for i, st in enumerate(scn["steps"]):
        act = st["act"]
        rec = {}
        if act == "ModelEval":
            obs = vals.get((i, "xn"), {})
            rec = obs
            n += pyrep.cmp_vec(out, "xn", i, obs, st["xn"], d.update, _env(d, st))
        elif act == "JacEval":
            env = _env(d, st)
            Gt = named(st.get("Gt")) or None
            Vt = named(st.get("Vt")) or None
            oG = vals.get((i, "G"), {})
            n += pyrep.cmp_mat(out, "G", i, oG, st["G"], Gt, env)
            oV = vals.get((i, "V"), {})
            expV = pyrep._fill_rows(st["V"], d.state)
            if d.control:
                n += pyrep.cmp_mat(out, "V", i, oV, expV, Vt, env)
            # process noise matrix by control name
            oM = vals.get((i, "M"), {})
            expM = {r: {c: (d.pnoise[r] if r == c else [0, 1]) for c in d.control} for r in d.control}
            if d.control:
                n += pyrep.cmp_mat(out, "M", i, oM, expM)
            rec = {"G": oG, "V": oV}
        elif act == "SensEval":
            key = st["key"]
            env = _env(d, st)
            Ht = named(st.get("Ht")) or None
            oh = vals.get((i, "h"), {})
            oH = vals.get((i, "H"), {})
            n += pyrep.cmp_vec(out, "h", i, oh, st["h"], d.sensors[key], env)
            n += pyrep.cmp_mat(out, "H", i, oH, st["H"], Ht, env)
            n += pyrep.cmp_mat(out, "Q", i, vals.get((i, "Q"), {}), st["Q"])
            rec = {"h": oh, "H": oH}
        elif act == "SetEstimate":
            rec = {}
        elif act == "Predict":
            ox, oP = vals.get((i, "x"), {}), vals.get((i, "P"), {})
            n += pyrep.cmp_vec(out, "x", i, ox, st["x"])
            n += pyrep.cmp_mat(out, "P", i, oP, st["P"])
            rec = {"x": ox, "P": oP}
        elif act == "Update":
            ox, oP = vals.get((i, "x"), {}), vals.get((i, "P"), {})
            oin = vals.get((i, "innov"), {})
            n += pyrep.cmp_vec(out, "x", i, ox, st["x"])
            n += pyrep.cmp_mat(out, "P", i, oP, st["P"])
            if "innov" in st:
                n += pyrep.cmp_vec(out, "innov", i, oin, st["innov"])
            unchanged = flags.get((i, "unchanged"))
            if st["outcome"] == "rejected" and unchanged != 1:
                out.append(pyrep.Mismatch(step=i, what="discard-changed-estimate", name=st["key"], expected="unchanged", observed="changed"))
            rec = {"x": ox, "P": oP, "innov": oin, "outcome": st["outcome"], "unchanged": unchanged}
        trace.append(rec)
    return out, n, trace


def replay_cpp(ctx, scns, cse_settings=(False, True), kind="ekf", presentation="random", via_entry="alternate", keep_trace=False):
    """Returns list of dict(scn, cse, status in {'ok','dropped','generate-failed','build-failed','run-failed'},
    mismatches, values, detail)."""
    jobs = []
    for si, s in enumerate(scns):
        clean = {k: v for k, v in s.items() if not k.startswith("_")}
        for cse in cse_settings:
            outdir = os.path.join(ctx.work, "cpp_%d_%d" % (si, int(bool(cse))))
            os.makedirs(outdir, exist_ok=True)
            jobs.append({"scn": s, "clean": clean, "cse": cse, "dir": outdir})
    ctx.log("generating C++ for %d (scenario, CSE) pairs" % len(jobs))
    def _pres(j):
        return ("random:cpp:%s:%s:%s" % (ctx.seed, j["scn"].get("_id", ""), j["cse"])) if presentation == "random" else presentation
    def _via(k):
        # every other job goes through the PUBLIC entry points cpp.compile / cpp.compile_ekf (synthetic sys.argv; the configuration
        # as a dict or as a cpp.Config object) instead of the internal generator functions: their configuration handling is part
        # of what is replayed
        return (k % 2 == 0) if via_entry == "alternate" else bool(via_entry)
    gen = workers.run_tasks([("tasks", "cpp_generate", (j["clean"], j["cse"], j["dir"], kind, _pres(j), _via(k)), 180) for k, j in enumerate(jobs)],
                            procs=ctx.cores)
    results = []
    build_jobs = []
    for j, (status, r) in zip(jobs, gen):
        if status == "timeout":
            results.append(dict(scn=j["scn"], cse=j["cse"], status="dropped", mismatches=[], values=0, detail="generation timeout"))
            j["skip"] = True
        elif status == "error":
            results.append(dict(scn=j["scn"], cse=j["cse"], status="dropped", mismatches=[], values=0, detail="harness error: " + str(r)[-400:]))
            j["skip"] = True
        elif not r["ok"]:
            results.append(dict(scn=j["scn"], cse=j["cse"], status="generate-failed", mismatches=[], values=0, detail=r["error"], tb=r.get("tb")))
            j["skip"] = True
        else:
            build_jobs.append(j)
    ctx.log("compiling %d generated filters + drivers with g++" % len(build_jobs))
    comp = cppbuild.compile_many([{"sources": [os.path.join(j["dir"], "driver.cpp"), os.path.join(j["dir"], "generated/formak/gen.cpp")],
                                   "out": os.path.join(j["dir"], "drv"), "includes": [os.path.join(j["dir"], "generated")]}
                                  for j in build_jobs], parallel=ctx.cores)
    for j, (ok, err) in zip(build_jobs, comp):
        if ok is None:
            results.append(dict(scn=j["scn"], cse=j["cse"], status="dropped", mismatches=[], values=0, detail="g++ timeout"))
            continue
        if not ok:
            # who is to blame: the generated code or the driver?  compile the generated source alone
            ok2, err2 = cppbuild.compile_one({"sources": ["-c", os.path.join(j["dir"], "generated/formak/gen.cpp")],
                                              "out": os.path.join(j["dir"], "gen.o"), "includes": [os.path.join(j["dir"], "generated")]})
            if ok2:
                results.append(dict(scn=j["scn"], cse=j["cse"], status="build-failed", mismatches=[], values=0,
                                    detail="driver does not compile against the generated header: " + err[-1200:]))
            else:
                results.append(dict(scn=j["scn"], cse=j["cse"], status="build-failed", mismatches=[], values=0,
                                    detail="generated source does not compile: " + err2[-1200:]))
            continue
        try:
            rc, so, se = cppbuild.run_exe(os.path.join(j["dir"], "drv"), timeout=60)
        except Exception as e:
            results.append(dict(scn=j["scn"], cse=j["cse"], status="run-failed", mismatches=[], values=0, detail=repr(e)))
            continue
        if rc != 0:
            results.append(dict(scn=j["scn"], cse=j["cse"], status="run-failed", mismatches=[], values=0, detail="exit %d %s" % (rc, se[-300:])))
            continue
        vals, flags, errors = cpprep.parse_driver_output(so)
        mm, n, trace = compare(j["clean"], vals, flags, errors, kind)
        results.append(dict(scn=j["scn"], cse=j["cse"], status="ok", mismatches=[dict(m) for m in mm], values=n, detail="",
                            trace=trace if keep_trace else None))
    for j in jobs:
        shutil.rmtree(j["dir"], ignore_errors=True)
    return results


def _undefined_everywhere(scn):
    return pyrep.undefined_everywhere(scn)


def record(ctx, results, key_prefix="cpp:"):
    n_ok = n_val = 0
    for r in results:
        s = r["scn"]
        payload = {"scenario": {k: v for k, v in s.items() if not k.startswith("_")}, "cse": r["cse"], "detail": r["detail"],
                   "mismatches": r["mismatches"][:10]}
        if r["status"] == "dropped":
            ctx.dropped += 1
            ctx.notes.append(r["detail"][:200])
            continue
        if r["status"] == "generate-failed" and _undefined_everywhere(s):
            # an update / sensor expression that is undefined at EVERY point (e.g. 2 / (tanh(y) - tanh(y))**2: sympy folds it to
            # zoo, which has no C spelling): the properties quantify over points where the expressions are defined -- no claim
            ctx.dropped += 1
            ctx.notes.append("definition undefined everywhere, C++ generation refused: " + r["detail"][:120])
            continue
        if r["status"] in ("generate-failed", "build-failed", "run-failed"):
            ctx.violation(key_prefix + r["status"], "cse=%s %s" % (r["cse"], r["detail"][:400]), payload)
            continue
        n_val += r["values"]
        if r["mismatches"]:
            m = r["mismatches"][0]
            key = findings.KEY if findings.attributed(s, r["mismatches"]) else key_prefix + m["what"]
            ctx.violation(key, "%scse=%s step=%s %s name=%s expected=%s observed=%s" %
                          (key_prefix, r["cse"], m["step"], m["what"], m["name"], m["expected"], m["observed"]), payload)
        else:
            n_ok += 1
    return {"cpp_replays_ok": n_ok, "cpp_values_compared": n_val}
