"""Extraction of straight-line programs (the result of common-subexpression elimination) from the
implementation, as Expr trees for TLC (C08):

  * Python: the symbolic post-CSE program kept by the FORMAK_VERIF hook in python.BasicBlock
    (sympy expressions -> trees);
  * C++: the generated function bodies (C expressions -> trees, a small recursive-descent parser).

Syntax this module does not understand is a MACHINERY failure (Unsupported), never a verdict.
"""
import re
from fractions import Fraction


class Unsupported(Exception):
    pass


def const(q):
    q = Fraction(q)
    return {"op": "const", "val": [q.numerator, q.denominator]}


def _fold(op, items):
    acc = items[0]
    for it in items[1:]:
        acc = {"op": op, "l": acc, "r": it}
    return acc


def _pow(base, e):
    """base ** e for rational e with denominator 1 or 2"""
    e = Fraction(e)
    if e.denominator == 1:
        n = e.numerator
        if n == 0:
            return const(1)
        if n > 0:
            return base if n == 1 else {"op": "pow", "b": base, "n": n}
        inv = base if n == -1 else {"op": "pow", "b": base, "n": -n}
        return {"op": "div", "l": const(1), "r": inv}
    if e.denominator == 2:
        root = {"op": "fn", "f": "sqrt", "a": base}
        return _pow(root, e.numerator)
    raise Unsupported("exponent %s" % e)


# --------------------------------------------------------------------- sympy ----
def from_sympy(e):
    import sympy
    if isinstance(e, sympy.Symbol):
        return {"op": "sym", "name": e.name}
    if isinstance(e, (sympy.Integer, sympy.Rational)):
        return const(Fraction(int(e.p), int(e.q)))
    if isinstance(e, sympy.Float):
        return const(Fraction(float(e)))
    if isinstance(e, (int,)):
        return const(e)
    if isinstance(e, float):
        return const(Fraction(e))
    if isinstance(e, sympy.Add):
        return _fold("add", [from_sympy(a) for a in e.args])
    if isinstance(e, sympy.Mul):
        return _fold("mul", [from_sympy(a) for a in e.args])
    if isinstance(e, sympy.Pow):
        b, x = e.args
        if isinstance(x, (sympy.Integer, sympy.Rational)):
            return _pow(from_sympy(b), Fraction(int(x.p), int(x.q)))
        raise Unsupported("symbolic exponent %s" % (x,))
    name = type(e).__name__
    if name in ("sin", "cos", "exp", "tanh", "atan", "log", "tan", "asin", "acos"):
        return {"op": "fn", "f": name, "a": from_sympy(e.args[0])}
    if e is sympy.S.NaN or e is sympy.S.ComplexInfinity or e in (sympy.S.Infinity, sympy.S.NegativeInfinity):
        raise Unsupported("non-finite constant")
    if isinstance(e, sympy.NumberSymbol):
        raise Unsupported("number symbol %s" % e)
    raise Unsupported("sympy node %s" % name)


def python_program(block):
    """python.BasicBlock (with the verification hook on) -> (inputs, prefix, outs)"""
    prog = getattr(block, "_verif_program", None)
    if prog is None:
        raise Unsupported("hook off: BasicBlock has no _verif_program (FORMAK_VERIF=1 required)")
    arglist, prefix, body = prog
    return ([str(a) for a in arglist],
            [[str(t), from_sympy(x)] for t, x in prefix],
            [from_sympy(x) for x in body])


# ------------------------------------------------------------------- C parser ----
_TOK = re.compile(r"\s*(?:(\d+\.\d*(?:[eE][-+]?\d+)?|\d+(?:[eE][-+]?\d+)?|\.\d+)|([A-Za-z_][A-Za-z_0-9]*(?:\.[A-Za-z_][A-Za-z_0-9]*)*)|(.))")


def _tokens(text):
    out = []
    pos = 0
    while pos < len(text):
        m = _TOK.match(text, pos)
        if not m:
            break
        pos = m.end()
        if m.group(1) is not None:
            out.append(("num", m.group(1)))
        elif m.group(2) is not None:
            out.append(("id", m.group(2)))
        elif m.group(3).strip():
            out.append(("op", m.group(3)))
    return out


class _P:
    def __init__(self, toks):
        self.t = toks
        self.i = 0

    def peek(self):
        return self.t[self.i] if self.i < len(self.t) else ("end", "")

    def eat(self, kind=None, val=None):
        k, v = self.peek()
        if (kind and k != kind) or (val and v != val):
            raise Unsupported("C syntax: expected %s %s, got %s %s" % (kind, val, k, v))
        self.i += 1
        return v

    def expr(self):
        node = self.term()
        while self.peek() in (("op", "+"), ("op", "-")):
            op = self.eat()
            rhs = self.term()
            node = {"op": "add" if op == "+" else "sub", "l": node, "r": rhs}
        return node

    def term(self):
        node = self.unary()
        while self.peek() in (("op", "*"), ("op", "/")):
            op = self.eat()
            rhs = self.unary()
            node = {"op": "mul" if op == "*" else "div", "l": node, "r": rhs}
        return node

    def unary(self):
        if self.peek() == ("op", "-"):
            self.eat()
            return {"op": "neg", "a": self.unary()}
        if self.peek() == ("op", "+"):
            self.eat()
            return self.unary()
        return self.atom()

    def atom(self):
        k, v = self.peek()
        if k == "num":
            self.eat()
            return const(Fraction(v))
        if k == "op" and v == "(":
            self.eat()
            n = self.expr()
            self.eat("op", ")")
            return n
        if k == "id":
            self.eat()
            if self.peek() == ("op", "("):
                self.eat()
                if self.peek() == ("op", ")"):          # accessor call: state.state.x()
                    self.eat()
                    return {"op": "sym", "name": v.split(".")[-1]}
                args = [self.expr()]
                while self.peek() == ("op", ","):
                    self.eat()
                    args.append(self.expr())
                self.eat("op", ")")
                fn = v.replace("std::", "")
                if fn == "pow":
                    ex = _const_value(args[1])
                    if ex is None:
                        raise Unsupported("pow with non-constant exponent")
                    return _pow(args[0], ex)
                if fn in ("sin", "cos", "exp", "tanh", "atan", "sqrt", "log", "tan", "asin", "acos"):
                    return {"op": "fn", "f": fn, "a": args[0]}
                raise Unsupported("C function %s" % fn)
            if v.startswith("M_") or v in ("INFINITY", "NAN", "HUGE_VAL"):
                raise Unsupported("C math constant %s" % v)     # not a symbol; irrational constants are outside Expr
            return {"op": "sym", "name": v}
        raise Unsupported("C syntax at %s %s" % (k, v))


def _const_value(e):
    op = e["op"]
    if op == "const":
        return Fraction(e["val"][0], e["val"][1])
    if op == "neg":
        v = _const_value(e["a"])
        return None if v is None else -v
    if op in ("add", "sub", "mul", "div"):
        a, b = _const_value(e["l"]), _const_value(e["r"])
        if a is None or b is None:
            return None
        return {"add": a + b, "sub": a - b, "mul": a * b, "div": (a / b) if b else None}[op]
    return None


def parse_c_expr(text):
    p = _P(_tokens(text))
    node = p.expr()
    if p.peek()[0] != "end":
        raise Unsupported("trailing C tokens: %r" % (p.t[p.i:p.i + 4],))
    return node


_FUNC = re.compile(r"([A-Za-z_0-9]+)::([A-Za-z_0-9]+)\s*\(([^)]*)\)\s*(?:const\s*)?\{(.*?)\n\s*return\b", re.S)
_ASSIGN = re.compile(r"^\s*(?:(double)\s+)?([A-Za-z_][A-Za-z_0-9]*(?:\(\s*\d+\s*,\s*\d+\s*\))?)\s*=\s*(.*);\s*$")


def cpp_functions(source_text):
    """-> {(class, function): [ (is_decl, target, tree) ... ]} for every generated function made of assignments."""
    out = {}
    for m in _FUNC.finditer(source_text):
        cls, fn, params, body = m.groups()
        stmts = []
        ok = True
        for line in body.split("\n"):
            line = line.strip()
            if not line or line.startswith("//"):
                continue
            a = _ASSIGN.match(line)
            if not a:
                if re.match(r"^[A-Za-z_:<>0-9 ,]+\s+[A-Za-z_]+;$", line):     # plain declaration: `T jacobian;`
                    continue
                ok = False
                break
            stmts.append((a.group(1) == "double", a.group(2).replace(" ", ""), a.group(3)))
        if ok and stmts:
            out[(cls, fn)] = stmts
    return out


def cpp_program(stmts):
    """statements of one generated function -> (prefix, targets, outs): temporaries are the `double _tN`
    declarations; every other assignment is an output"""
    prefix, targets, outs = [], [], []
    for is_decl, target, text in stmts:
        tree = parse_c_expr(text)
        if is_decl and re.match(r"^_t\d+$", target):
            prefix.append([target, tree])
        else:
            targets.append(target)
            outs.append(tree)
    return prefix, targets, outs
