#!/usr/bin/env python3
"""Systematic (syntactic) mutation campaign against the checks -- a complement to the hand-written seeded changes.

For every mutant of the library source (one small edit on one line, see OPERATORS):
  1. the edit is made in a scratch worktree of /repo (never in /repo itself),
  2. the repository's own test-suite is run there; a mutant that makes a test fail that passes on the clean tree is
     "killed-by-tests" (not interesting: the brief is about changes the existing tests do not notice),
  3. otherwise the checks mapped to the mutated region are run against the worktree (VERIF_REPO, scratch evidence);
     "killed-by-check" lists the first check that reports a violation, "survived" means no mapped check noticed.
Survivors are listed for MANUAL judgement (equivalent mutant / outside every property / blind spot) in DESIGN.md 9.8.

usage: mutate.py generate            -> /verif/seeded/mutation/mutants.json
       mutate.py run <worker> <nworkers> <worktree>   -> appends to /verif/seeded/mutation/results.jsonl
"""
import json
import os
import re
import subprocess
import sys
import xml.etree.ElementTree as ET

OUT = "/verif/seeded/mutation"
REPO = "/repo"

# file -> list of (first line, last line, checks): regions of the source that the listed properties are anchored in
REGIONS = {
    "py/formak/python.py": [
        (45, 130, ["C01", "C08"]),            # BasicBlock
        (131, 232, ["C01", "C13"]),           # Model
        (234, 302, ["C03", "C05", "C13"]),    # SensorModel
        (307, 355, ["C09", "C17"]),           # assert_valid_covariance, nearest_positive_definite
        (357, 540, ["C04", "C03", "C05", "C13"]),   # EKF construction
        (542, 583, ["C03"]),                  # jacobians
        (584, 628, ["C04", "C09"]),           # process_model
        (629, 640, ["C06"]),                  # remove_innovation
        (641, 705, ["C05", "C06", "C09"]),    # sensor_model
        (707, 763, ["C14", "C01"]),           # compile / compile_ekf
        (778, 951, ["C17", "C16"]),           # adapter construction, flatten
        (952, 1087, ["C17", "C16"]),          # fit, mahalanobis, score
        (1088, 1260, ["C16", "C17"]),         # transform, params
    ],
    "py/formak/runtime.py": [(1, 100, ["C10", "C11"])],
    "py/formak/common.py": [(18, 103, ["C14"]), (104, 235, ["C13"])],
    "py/formak/ui_model.py": [(1, 77, ["C14", "C15"])],
    "py/formak/ui_state_machine.py": [(51, 325, ["C18"])],
    "py/formak/reference_models/strapdown_imu.py": [(1, 400, ["C19"])],
    "py/formak/cpp.py": [(99, 142, ["C08", "C02"]), (143, 278, ["C02"]), (279, 682, ["C02", "C07", "C12"]), (683, 928, ["C14", "C15", "C02"])],
    "py/formak/templates/sensor_model.hpp": [(1, 200, ["C07", "C06", "C12"])],
    "py/formak/templates/process_model.cpp": [(1, 200, ["C07", "C12"])],
    "cpp/runtime/include/formak/runtime/ManagedFilter.h": [(1, 400, ["C10", "C11", "C12"])],
    "cpp/include/formak/innovation_filtering.h": [(1, 200, ["C06"])],
}

# (name, regex, replacement) -- applied to ONE occurrence on ONE line; comment and docstring lines are skipped
OPERATORS = [
    ("plus->minus", r"(?<=[\w\)\]]) \+ (?=[\w\(\-])", " - "),
    ("minus->plus", r"(?<=[\w\)\]]) - (?=[\w\(])", " + "),
    ("mul->div", r"(?<=[\w\)\]]) \* (?=[\w\(])", " / "),
    ("gt->ge", r" > (?=[\w\(\-])", " >= "),
    ("ge->gt", r" >= ", " > "),
    ("lt->le", r" < (?=[\w\(\-])", " <= "),
    ("le->lt", r" <= ", " < "),
    ("eq->ne", r" == ", " != "),
    ("and->or", r" and ", " or "),
    ("sorted->list", r"\bsorted\(", "list("),
    ("transpose-dropped", r"\.transpose\(\)", ""),
    ("index-swap", r"\[(\w+), (\w+)\]", r"[\2, \1]"),
    ("abs-dropped", r"(?<![:\w])abs\(", "("),
    ("std::abs-dropped", r"std::abs\(", "("),
    ("const-1e-9", r"1e-9", "1e-6"),
    ("two->three", r"\b2 \* ", "3 * "),
    ("plus-one", r"(?<=[\w\)]) \+ 1\b", " + 2"),
    ("i->j", r"\biIdx\b", "jIdx"),
    ("row->col", r"\brow \* ", "col * "),
    ("state_size->control_size", r"self\.state_size\b", "self.control_size"),
    ("true->false", r"\bTrue\b", "False"),
    ("is-none-flip", r" is None", " is not None"),
    ("max->min", r"\bmax\(", "min("),
]


def candidates():
    out = []
    for rel, regions in REGIONS.items():
        path = os.path.join(REPO, rel)
        if not os.path.exists(path):
            continue
        lines = open(path).read().split("\n")
        in_doc = False
        for ln, text in enumerate(lines, start=1):
            stripped = text.strip()
            if stripped.count('"""') % 2 == 1:
                in_doc = not in_doc
                continue
            if in_doc or not stripped or stripped.startswith(("#", "//", "*", "/*", '"""', "print(", "logger.", "assert isinstance", "raise ", "f\"", "\"")):
                continue
            if "FORMAK_VERIF" in text or "_verif_" in text:
                continue
            checks = next((c for a, b, c in regions if a <= ln <= b), None)
            if not checks:
                continue
            for name, rx, rep in OPERATORS:
                m = re.search(rx, text)
                if not m:
                    continue
                new = text[:m.start()] + re.sub(rx, rep, text[m.start():], count=1)
                if new != text:
                    out.append({"file": rel, "line": ln, "op": name, "old": text, "new": new, "checks": checks})
    return out


def passed_tests(junit):
    ok = set()
    for tc in ET.parse(junit).iter("testcase"):
        if not any(ch.tag in ("failure", "error", "skipped") for ch in tc):
            ok.add(tc.get("classname", "") + "::" + tc.get("name", ""))
    return ok


def run_tests(wt, tag):
    out = "/tmp/mut_%s.xml" % tag
    env = dict(os.environ)
    env.pop("FORMAK_VERIF", None)
    env["PYTHONDONTWRITEBYTECODE"] = "1"
    subprocess.run(["/venv/bin/python", "-m", "pytest", "-q", "-p", "no:cacheprovider", "--timeout=600", "--continue-on-collection-errors",
                    "--junitxml=" + out, "-k", "not hypothesischeck"],
                   cwd=wt, env=env, capture_output=True, text=True, timeout=2400)
    try:
        return passed_tests(out)
    except Exception:
        return set()
    finally:
        if os.path.exists(out):
            os.unlink(out)


def main():
    os.makedirs(OUT, exist_ok=True)
    if sys.argv[1] == "generate":
        import random
        c = candidates()
        rnd = random.Random(7)
        # at most 2 mutants per source line, then a deterministic sample
        by_line = {}
        for m in c:
            by_line.setdefault((m["file"], m["line"]), []).append(m)
        pick = []
        for k in sorted(by_line):
            ms = by_line[k]
            rnd.shuffle(ms)
            pick += ms[:2]
        rnd.shuffle(pick)
        n = int(sys.argv[2]) if len(sys.argv) > 2 else 160
        pick = sorted(pick[:n], key=lambda m: (m["file"], m["line"], m["op"]))
        for i, m in enumerate(pick):
            m["id"] = "M%03d" % i
        json.dump(pick, open(os.path.join(OUT, "mutants.json"), "w"), indent=1)
        print(len(c), "candidates,", len(pick), "mutants written")
        return
    worker, nworkers, wt = int(sys.argv[2]), int(sys.argv[3]), sys.argv[4]
    mutants = json.load(open(os.path.join(OUT, "mutants.json")))
    done = set()
    res_path = os.path.join(OUT, "results.jsonl")
    if os.path.exists(res_path):
        done = {json.loads(l)["id"] for l in open(res_path)}
    subprocess.run(["git", "-C", wt, "checkout", "-q", "--", "py", "cpp"])
    base = run_tests(wt, "base%d" % worker)
    for m in mutants[worker::nworkers]:
        if m["id"] in done:
            continue
        path = os.path.join(wt, m["file"])
        lines = open(path).read().split("\n")
        rec = dict(m)
        if lines[m["line"] - 1] != m["old"]:
            rec["status"] = "stale"
        else:
            lines[m["line"] - 1] = m["new"]
            open(path, "w").write("\n".join(lines))
            try:
                got = run_tests(wt, "w%d" % worker)
                lost = sorted(base - got)
                if lost:
                    rec["status"] = "killed-by-tests"
                    rec["lost_tests"] = lost[:3]
                else:
                    rec["status"] = "survived"
                    rec["runs"] = []
                    ev = "/tmp/mut_ev_%d" % worker
                    for chk in m["checks"]:
                        env = dict(os.environ, VERIF_REPO=wt, VERIF_EVIDENCE_DIR=ev)
                        p = subprocess.run(["/verif/check", chk, "--tier", "quick"], env=env, capture_output=True, text=True, timeout=3600)
                        first = ""
                        if "VIOLATION" in p.stdout:
                            after = p.stdout.split("VIOLATION", 1)[1].split("\n")
                            first = (after[1] if len(after) > 1 else after[0]).strip()[:200]
                        rec["runs"].append({"check": chk, "exit": p.returncode, "first": first})
                        if p.returncode == 1:
                            rec["status"] = "killed-by-check"
                            rec["killed_by"] = chk
                            break
                        if p.returncode == 2:
                            rec["status"] = "check-machinery-failure"      # e.g. the mutant breaks import: every replay dropped
                            rec["killed_by"] = chk
                            break
                    subprocess.run(["rm", "-rf", ev])
            finally:
                subprocess.run(["git", "-C", wt, "checkout", "-q", "--", "py", "cpp"])
        with open(res_path, "a") as fh:
            fh.write(json.dumps(rec) + "\n")
        print(rec["id"], rec["file"], rec["line"], rec["op"], rec["status"], rec.get("killed_by", ""), flush=True)


if __name__ == "__main__":
    main()
