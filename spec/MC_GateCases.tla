---- MODULE MC_GateCases ----
EXTENDS GateCases
cMs == {1, 2, 3, 8}
cKs == {RQ(1,2), RI(1), RI(3), RI(5)}
cY == {RI(0), RI(1), RI(-2), RI(2), RI(3), RQ(1,2), RI(4)}
cS == {RI(1), RQ(1,2), RI(2), RQ(1,4)}
cYq == {RI(0), RI(1), RI(-2), RI(2), RI(3)}
cSq == {RI(1), RQ(1,2)}
====
