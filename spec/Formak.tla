------------------------------- MODULE Formak -------------------------------
(***************************************************************************)
(* Life cycle of one FormaK model / filter.                                *)
(*                                                                         *)
(*   construction :  PickName* PickSensor/PickReading* AddPoint*           *)
(*                   Grow* (expression DAG pool, shared sub-terms)         *)
(*                   BindUpdate* BindReading*                              *)
(*   Compile      :  chooses calibration values, noises, gate threshold    *)
(*                   (the definition is valid by construction; refused     *)
(*                   definitions are the business of Definition.tla)       *)
(*   run          :  ModelEval JacEval SensEval (and the *Near pairs: two   *)
(*                   evaluations in a row at neighbouring points)          *)
(*                   SetEstimate Predict UpdateAccept UpdateReject         *)
(*                   DefaultEstimate TransformRow (scikit-learn adapter)   *)
(*   Emit         :  the behaviour is handed to the replay harness.        *)
(*                                                                         *)
(* Every run action records in `steps` its arguments and the abstract      *)
(* state the specification says must result (exact rationals, by name).    *)
(* The replay harness steps the real Python objects and the real generated *)
(* C++ through the same calls and compares after every call.               *)
(*                                                                         *)
(* Theorems checked as invariants on every visited state: InvCovValid,     *)
(* InvUpdate, InvSPD, InvReject, InvNisNonNeg (filter algebra), InvRescale *)
(* and InvRescaleControl (units of a reading / a control do not matter),   *)
(* InvRenaming (names, hence layouts, do not matter).                      *)
(***************************************************************************)
EXTENDS FilterMath, Json

CONSTANTS
  Shapes,      \* set of [nS, nC, nK : Nat, sens : Seq(Nat)]  (sens = readings per sensor)
  SymNames,    \* pool of symbol names to draw from
  SensorNames, ReadingNames,
  Ops,         \* subset of BinOps \cup UnaryOps below (arithmetic, powers, dt products, |.|, elementary and bounded
               \* inverse-trigonometric functions, a user-supplied function)
  Consts,      \* sequence of rational constants available as leaves
  MinGrow, MaxGrow,
  NPoints,     \* number of evaluation points
  Vals,        \* value ring for symbols
  Dts,         \* sequence of dt values
  CalVals, PNoiseVals, SNoiseVals,   \* value rings
  Ks,          \* set of gate thresholds (rationals or NoGate)
  PDiag, PVec, \* covariance family  P = Diag(PDiag ring) + v v^T
  ZDeltas,     \* ring of reading offsets from the prediction
  Acts,        \* enabled run actions
  MinSteps, MaxSteps,
  RationalOnly,\* TRUE: updates/readings must be in the rational fragment
  Twins,       \* TRUE: a renamed twin of the definition is drawn as well (C13)
  SetOnce,     \* TRUE: the estimate is set once per behaviour (long Predict/Update histories)
  Chain,       \* TRUE: every grown node uses the previously grown node (deep chains of shared sub-terms)
  NeedDt,      \* TRUE: some update expression must depend on dt (time-stepping matters)
  BindLeaves,  \* TRUE: symbol leaves may be bound even when something was grown
  EmitOn,      \* FALSE: invariant checking only, nothing is printed
  NameSeq      \* <<>>: names are drawn freely from SymNames; otherwise taken in this order
               \* (exhaustive configurations, to keep the state space to the programs)

VARIABLES phase, shape, prm, names, skeys, rnames, pts, pool, upd, sens, def, est, steps, last, twin

vars == <<phase, shape, prm, names, skeys, rnames, pts, pool, upd, sens, def, est, steps, last, twin>>

Ring(vals, k, r) == vals[((k + r) % Len(vals)) + 1]

NSyms    == shape.nS + shape.nC + shape.nK
StateOf  == {names[i] : i \in 1..shape.nS}
CtrlOf   == {names[i] : i \in (shape.nS + 1)..(shape.nS + shape.nC)}
CalibOf  == {names[i] : i \in (shape.nS + shape.nC + 1)..NSyms}
Slot(n)  == IndexOf(n, names)
NSens    == Len(shape.sens)

PointEnv(p) == [dt |-> Dts[p.i],
                x  |-> [s \in StateOf |-> Ring(Vals, Slot(s), p.r)],
                u  |-> [c \in CtrlOf  |-> Ring(Vals, Slot(c), p.r)]]

Leaves == [i \in 1..(NSyms + 1 + Len(Consts)) |->
             IF i <= NSyms THEN Sym(names[i])
             ELSE IF i = NSyms + 1 THEN Sym("dt")
             ELSE Const(Consts[i - NSyms - 1])]

UnaryOps == {"abs1", "usat", "muldt", "neg", "pow2", "pow3", "sin", "cos", "exp", "tanh", "atan", "sqrt1", "log1", "tan", "asinb", "acosb"}
\* asin / acos are only applied to arguments that are bounded by construction (|sin|, |cos|, |tanh| <= 1)
BoundedFn(e) == e.op = "fn" /\ e.f \in {"sin", "cos", "tanh"}
MkNode(op, a, b) ==
  CASE op \in BinOps -> Bin(op, a, b)
    [] op = "neg"  -> Neg(a)
    [] op = "abs1" -> Fn("sqrt", Pow(a, 2))           \* |a| written as sqrt(a^2): sign-sensitive under "simplification"
    [] op = "usat" -> Fn("sat", a)                  \* a USER function supplied through Config.python_modules (Python back-end only)
    [] op = "muldt" -> Bin("mul", a, Sym("dt"))      \* linear-in-dt models (x + v dt): the everyday case
    [] op = "pow2" -> Pow(a, 2)
    [] op = "pow3" -> Pow(a, 3)
    [] op \in {"sin", "cos", "exp", "tanh", "atan", "tan"} -> Fn(op, a)
    [] op = "asinb" -> Fn("asin", a)
    [] op = "acosb" -> Fn("acos", a)
    [] op = "sqrt1" -> Fn("sqrt", Bin("add", Pow(a, 2), CI(1)))   \* total on the reals
    [] op = "log1"  -> Fn("log",  Bin("add", Pow(a, 2), CI(1)))

CalMap == [c \in CalibOf |-> Ring(CalVals, Slot(c), prm.rc)]
ProbeEnv(p) == LET e == PointEnv(p) IN ("dt" :> e.dt) @@ e.x @@ e.u @@ CalMap

\* a node is admissible if, on the rational fragment, it never leaves the window
\* and is defined at at least one evaluation point
NodeOK(e) ==
  IsRational(e) =>
    /\ \A p \in RangeOf(pts) : ~IsOver(Eval(e, ProbeEnv(p)))
    /\ \E p \in RangeOf(pts) : ~IsBad(Eval(e, ProbeEnv(p)))

Init ==
  /\ phase = "names" /\ shape \in Shapes
  /\ prm \in [rc : 0..(Len(CalVals) - 1), rn : 0..(Len(PNoiseVals) - 1), k : Ks]
  /\ names = <<>> /\ skeys = <<>> /\ rnames = <<>> /\ pts = <<>> /\ pool = <<>>
  /\ upd = <<>> /\ sens = <<>> /\ def = <<>> /\ est = <<>> /\ steps = <<>> /\ last = <<>> /\ twin = <<>>

PickName(n) ==
  /\ phase = "names" /\ Len(names) < NSyms /\ n \in SymNames \ RangeOf(names)
  /\ (NameSeq # <<>> => n = NameSeq[Len(names) + 1])
  /\ names' = Append(names, n)
  /\ phase' = IF Len(names) + 1 = NSyms THEN (IF Twins THEN "twin" ELSE IF NSens > 0 THEN "sensors" ELSE "points") ELSE phase
  /\ UNCHANGED <<shape, prm, skeys, rnames, pts, pool, upd, sens, def, est, steps, last, twin>>

\* the renamed twin: a second, independently drawn, name for every symbol (a bijection names[i] -> twin[i]);
\* the sort order of the twin names is unrelated to that of the originals, so the internal layout is permuted
PickTwin(n) ==
  /\ phase = "twin" /\ Len(twin) < NSyms /\ n \in SymNames \ RangeOf(twin)
  /\ twin' = Append(twin, n)
  /\ phase' = IF Len(twin) + 1 = NSyms THEN (IF NSens > 0 THEN "sensors" ELSE "points") ELSE phase
  /\ UNCHANGED <<shape, prm, names, skeys, rnames, pts, pool, upd, sens, def, est, steps, last>>

\* sensors are named one at a time; after the key, its reading names
PickSensor(k) ==
  /\ phase = "sensors" /\ Len(skeys) < NSens
  /\ IF Len(skeys) = 0 THEN TRUE ELSE Len(rnames[Len(skeys)]) = shape.sens[Len(skeys)]
  /\ k \in SensorNames \ RangeOf(skeys)
  /\ skeys' = Append(skeys, k) /\ rnames' = Append(rnames, <<>>)
  /\ UNCHANGED <<phase, shape, prm, names, pts, pool, upd, sens, def, est, steps, last, twin>>

PickReading(r) ==
  /\ phase = "sensors"
  /\ Len(skeys) > 0
  /\ LET j == Len(skeys) IN
     /\ j > 0
     /\ Len(rnames[j]) < shape.sens[j]
     /\ r \in ReadingNames \ RangeOf(rnames[j])
     /\ rnames' = [rnames EXCEPT ![j] = Append(@, r)]
     /\ phase' = IF j = NSens /\ Len(rnames[j]) + 1 = shape.sens[j] THEN "points" ELSE phase
  /\ UNCHANGED <<shape, prm, names, skeys, pts, pool, upd, sens, def, est, steps, last, twin>>

AddPoint(i, r) ==
  /\ phase = "points" /\ Len(pts) < NPoints
  /\ i \in DOMAIN Dts /\ r \in 0..(Len(Vals) - 1)
  /\ [i |-> i, r |-> r] \notin RangeOf(pts)
  /\ (NameSeq # <<>> /\ pts # <<>> => r > pts[Len(pts)].r)      \* exhaustive configs: sets of points
  /\ pts' = Append(pts, [i |-> i, r |-> r])
  /\ IF Len(pts) + 1 = NPoints THEN phase' = "grow" /\ pool' = Leaves
                               ELSE UNCHANGED <<phase, pool>>
  /\ UNCHANGED <<shape, prm, names, skeys, rnames, upd, sens, def, est, steps, last, twin>>

NGrown == Len(pool) - Len(Leaves)

Grow(op, i, j) ==
  /\ phase = "grow" /\ NGrown < MaxGrow
  /\ op \in Ops /\ i \in DOMAIN pool /\ j \in DOMAIN pool
  /\ (op \in UnaryOps => j = 1)
  /\ (op \in {"asinb", "acosb"} => BoundedFn(pool[i]))
  /\ ((Chain /\ NGrown > 0) => (i = Len(pool) \/ j = Len(pool)))
  /\ (op \in {"add", "mul"} => i <= j)                \* commutative: one representative
  /\ (RationalOnly => op \in BinOps \cup {"neg", "pow2", "pow3", "muldt"})
  /\ LET e == MkNode(op, pool[i], pool[j]) IN
     /\ \A t \in DOMAIN pool : pool[t] # e
     /\ NodeOK(e)
     /\ pool' = Append(pool, e)
  /\ UNCHANGED <<phase, shape, prm, names, skeys, rnames, pts, upd, sens, def, est, steps, last, twin>>

EndGrow ==
  /\ phase = "grow" /\ NGrown >= MinGrow
  /\ phase' = "bind"
  /\ UNCHANGED <<shape, prm, names, skeys, rnames, pts, pool, upd, sens, def, est, steps, last, twin>>

\* updates are bound in slot order; upd is the sequence of bound trees
\* (when something was grown, only grown nodes are bound; leaf-only definitions
\* -- identity updates, constants -- are covered by the MinGrow = 0 configurations)
Bindable(i) == i \in DOMAIN pool /\ (NGrown > 0 => (i > Len(Leaves) \/ (BindLeaves /\ i <= NSyms)))
BindUpdate(i) ==
  /\ phase = "bind" /\ Len(upd) < shape.nS /\ Bindable(i)
  /\ upd' = Append(upd, pool[i])
  /\ UNCHANGED <<phase, shape, prm, names, skeys, rnames, pts, pool, sens, def, est, steps, last, twin>>

\* readings are bound sensor by sensor; sens is a flat sequence in (sensor, reading) order
NReadingsTotal == LET RECURSIVE S(_) S(n) == IF n = 0 THEN 0 ELSE S(n - 1) + shape.sens[n] IN S(NSens)
BindReading(i) ==
  /\ phase = "bind" /\ Len(upd) = shape.nS /\ Len(sens) < NReadingsTotal /\ Bindable(i)
  /\ FreeSyms(pool[i]) \subseteq StateOf \cup CalibOf
  /\ sens' = Append(sens, pool[i])
  /\ UNCHANGED <<phase, shape, prm, names, skeys, rnames, pts, pool, upd, def, est, steps, last, twin>>

\* flat index of reading t of sensor j
FlatIx(j, t) == LET RECURSIVE S(_) S(n) == IF n = 0 THEN 0 ELSE S(n - 1) + shape.sens[n] IN S(j - 1) + t

MkDef ==
  [state   |-> StateOf, control |-> CtrlOf, calib |-> CalibOf,
   update  |-> [s \in StateOf |-> upd[Slot(s)]],
   calmap  |-> [c \in CalibOf |-> Ring(CalVals, Slot(c), prm.rc)],
   pnoise  |-> [c \in CtrlOf |-> Ring(PNoiseVals, Slot(c), prm.rn)],
   sensors |-> [key \in RangeOf(skeys) |->
                  LET j == IndexOf(key, skeys) IN
                  [r \in RangeOf(rnames[j]) |-> sens[FlatIx(j, IndexOf(r, rnames[j]))]]],
   snoise  |-> [key \in RangeOf(skeys) |->
                  LET j == IndexOf(key, skeys) IN
                  [r \in RangeOf(rnames[j]) |-> Ring(SNoiseVals, FlatIx(j, IndexOf(r, rnames[j])), prm.rn)]],
   k       |-> prm.k]

\* "Compile": the definition becomes a filter (calibration values, noises and
\* the gate threshold were fixed at Init in `prm`)
Compile ==
  /\ phase = "bind" /\ Len(upd) = shape.nS /\ Len(sens) = NReadingsTotal
  /\ (NeedDt => \E i \in DOMAIN upd : "dt" \in FreeSyms(upd[i]))
  /\ def' = MkDef
  /\ phase' = "run"
  /\ UNCHANGED <<shape, prm, names, skeys, rnames, pts, pool, upd, sens, est, steps, last, twin>>

\* ---------------------------------------------------------------- run ----
CanStep == phase = "run" /\ Len(steps) < MaxSteps

\* Values of trees with elementary functions are not computable by TLC: the spec fixes the
\* tree and the binding, the number is taken by the harness' reference interpreter (DESIGN 3.2).
ByHarness == <<2, 0>>
Val(tree, env) == IF IsRational(tree) THEN Eval(tree, env) ELSE ByHarness
IsRealBad(q) == IsBad(q) /\ q # ByHarness
VBad(f) == \E n \in DOMAIN f : IsRealBad(f[n])
MBad(F) == \E r \in DOMAIN F : \E c \in DOMAIN F[r] : IsRealBad(F[r][c])
AllRational == /\ \A s \in StateOf : IsRational(def.update[s])
               /\ \A key \in DOMAIN def.sensors : \A r \in DOMAIN def.sensors[key] : IsRational(def.sensors[key][r])
StepV(e) == [s \in StateOf |-> Val(def.update[s], ProcEnv(def, e.dt, e.x, e.u))]
DefinedAt(e) == ~VBad(StepV(e))

ModelEval(p) ==
  /\ CanStep /\ "ModelEval" \in Acts /\ p \in RangeOf(pts)
  /\ LET e == PointEnv(p)  xn == StepV(e) IN
     /\ ~VBad(xn)
     /\ ~\E t \in DOMAIN steps : steps[t].act = "ModelEval" /\ steps[t].dt = e.dt /\ steps[t].x = e.x
     /\ steps' = Append(steps, [act |-> "ModelEval", dt |-> e.dt, x |-> e.x, u |-> e.u, xn |-> xn])
     /\ last' = [act |-> "ModelEval"]
  /\ UNCHANGED <<phase, shape, prm, names, skeys, rnames, pts, pool, upd, sens, def, est, twin>>

\* Two evaluations in a row at NEIGHBOURING points: the second differs from the first in one state only.  A compiled model is a
\* function of its arguments -- nothing of the first call may survive into the second (values kept from "the same point"
\* are only right if the point really is the same).  -1 and -2 are swapped for each other (Python hashes both to -2, so a cache keyed
\* on hashes takes them for the same point); any other value moves by one.
Near(v) == IF v = RI(-1) THEN RI(-2) ELSE IF v = RI(-2) THEN RI(-1) ELSE RAdd(v, One)
ModelEvalNear(p, s) ==
  /\ phase = "run" /\ Len(steps) + 1 < MaxSteps /\ "ModelEvalNear" \in Acts /\ p \in RangeOf(pts) /\ s \in StateOf
  /\ LET e == PointEnv(p)
         x2 == [e.x EXCEPT ![s] = Near(e.x[s])]
         e2 == [dt |-> e.dt, x |-> x2, u |-> e.u]
         xn == StepV(e)  xn2 == StepV(e2) IN
     /\ ~VBad(xn) /\ ~VBad(xn2)
     /\ steps' = steps \o << [act |-> "ModelEval", dt |-> e.dt, x |-> e.x, u |-> e.u, xn |-> xn],
                              [act |-> "ModelEval", dt |-> e.dt, x |-> x2, u |-> e.u, xn |-> xn2] >>
     /\ last' = [act |-> "ModelEval"]
  /\ UNCHANGED <<phase, shape, prm, names, skeys, rnames, pts, pool, upd, sens, def, est, twin>>

\* the records the Jacobian / sensor evaluation steps carry, as functions of the evaluation point
JacRec(e) ==
  LET env == ProcEnv(def, e.dt, e.x, e.u)
      Gt == ProcJacTree(def)  Vt == CtrlJacTree(def)
      G == [r \in StateOf |-> [c \in StateOf |-> Val(Gt[r][c], env)]]
      V == [r \in StateOf |-> [c \in CtrlOf |-> Val(Vt[r][c], env)]] IN
  [act |-> "JacEval", dt |-> e.dt, x |-> e.x, u |-> e.u, G |-> G, V |-> V,
   Gt |-> IF AllRational THEN <<>> ELSE Gt,
   Vt |-> IF AllRational THEN <<>> ELSE Vt]
JacOK(e, rec) == DefinedAt(e) /\ ~MBad(rec.G) /\ ~MBad(rec.V)

JacEval(p) ==
  /\ CanStep /\ "JacEval" \in Acts /\ p \in RangeOf(pts)
  /\ LET e == PointEnv(p)  rec == JacRec(e) IN
     /\ JacOK(e, rec)
     /\ ~\E t \in DOMAIN steps : steps[t].act = "JacEval" /\ steps[t].dt = e.dt /\ steps[t].x = e.x
     /\ steps' = Append(steps, rec)
     /\ last' = [act |-> "JacEval"]
  /\ UNCHANGED <<phase, shape, prm, names, skeys, rnames, pts, pool, upd, sens, def, est, twin>>

SensRec(key, e) ==
  LET env == SensEnv(def, e.x)
      Ht == [r \in Readings(def, key) |-> [c \in StateOf |-> Diff(def.sensors[key][r], c)]]
      h == [r \in Readings(def, key) |-> Val(def.sensors[key][r], env)]
      H == [r \in Readings(def, key) |-> [c \in StateOf |-> Val(Ht[r][c], env)]] IN
  [act |-> "SensEval", key |-> key, x |-> e.x, h |-> h, H |-> H,
   Q |-> NoiseQ(def, key),
   Ht |-> IF AllRational THEN <<>> ELSE Ht]
SensOK(rec) == ~VBad(rec.h) /\ ~MBad(rec.H)

SensEval(key, p) ==
  /\ CanStep /\ "SensEval" \in Acts /\ p \in RangeOf(pts) /\ key \in RangeOf(skeys)
  /\ LET e == PointEnv(p)  rec == SensRec(key, e) IN
     /\ SensOK(rec)
     /\ ~\E t \in DOMAIN steps : steps[t].act = "SensEval" /\ steps[t].key = key /\ steps[t].x = e.x
     /\ steps' = Append(steps, rec)
     /\ last' = [act |-> "SensEval"]
  /\ UNCHANGED <<phase, shape, prm, names, skeys, rnames, pts, pool, upd, sens, def, est, twin>>

\* the same neighbouring-point pairs for the Jacobians and the sensor models (they are compiled blocks of their own)
NearPoint(e, s) == [dt |-> e.dt, x |-> [e.x EXCEPT ![s] = Near(e.x[s])], u |-> e.u]
JacEvalNear(p, s) ==
  /\ phase = "run" /\ Len(steps) + 1 < MaxSteps /\ "JacEvalNear" \in Acts /\ p \in RangeOf(pts) /\ s \in StateOf
  /\ LET e == PointEnv(p)  e2 == NearPoint(e, s)  r1 == JacRec(e)  r2 == JacRec(e2) IN
     /\ JacOK(e, r1) /\ JacOK(e2, r2)
     /\ steps' = steps \o <<r1, r2>>
     /\ last' = [act |-> "JacEval"]
  /\ UNCHANGED <<phase, shape, prm, names, skeys, rnames, pts, pool, upd, sens, def, est, twin>>
SensEvalNear(key, p, s) ==
  /\ phase = "run" /\ Len(steps) + 1 < MaxSteps /\ "SensEvalNear" \in Acts /\ p \in RangeOf(pts) /\ s \in StateOf
  /\ key \in RangeOf(skeys)
  /\ LET e == PointEnv(p)  e2 == NearPoint(e, s)  r1 == SensRec(key, e)  r2 == SensRec(key, e2) IN
     /\ SensOK(r1) /\ SensOK(r2)
     /\ steps' = steps \o <<r1, r2>>
     /\ last' = [act |-> "SensEval"]
  /\ UNCHANGED <<phase, shape, prm, names, skeys, rnames, pts, pool, upd, sens, def, est, twin>>

CovOf(rp) == [r \in StateOf |-> [c \in StateOf |->
                RAdd(IF r = c THEN RI(Ring(PDiag, Slot(r), rp)) ELSE Zero,
                     RI(Ring(PVec, Slot(r), rp) * Ring(PVec, Slot(c), rp)))]]

SetEstimate(p, rp) ==
  /\ CanStep /\ "SetEstimate" \in Acts /\ p \in RangeOf(pts) /\ rp \in 0..(Len(PDiag) - 1)
  /\ (SetOnce => est = <<>>)
  /\ est' = [x |-> PointEnv(p).x, P |-> CovOf(rp)]
  /\ steps' = Append(steps, [act |-> "SetEstimate", x |-> est'.x, P |-> est'.P])
  /\ last' = [act |-> "SetEstimate"]
  /\ UNCHANGED <<phase, shape, prm, names, skeys, rnames, pts, pool, upd, sens, def, twin>>

Predict(p) ==
  /\ CanStep /\ "Predict" \in Acts /\ est # <<>> /\ p \in RangeOf(pts)
  /\ LET e == PointEnv(p)
         n == PredictF(def, e.dt, est, e.u) IN
     /\ ~NVecBad(n.x) /\ ~NMatBad(n.P)
     /\ ~NMatBad(ProcJac(def, e.dt, est.x, e.u)) /\ ~NMatBad(CtrlJac(def, e.dt, est.x, e.u))
     /\ est' = n
     /\ steps' = Append(steps, [act |-> "Predict", dt |-> e.dt, u |-> e.u, x |-> n.x, P |-> n.P])
     /\ last' = [act |-> "Predict", prior |-> est, dt |-> e.dt, u |-> e.u]
  /\ UNCHANGED <<phase, shape, prm, names, skeys, rnames, pts, pool, upd, sens, def, twin>>

\* the reading offered to the filter: prediction + ring offset (rz = -1: exactly the prediction)
ReadingFor(key, rz) ==
  LET h == Pred(def, key, est.x)
      j == IndexOf(key, skeys) IN
  [r \in DOMAIN h |-> IF rz < 0 THEN h[r] ELSE RAdd(h[r], Ring(ZDeltas, IndexOf(r, rnames[j]), rz))]

UpdateCommon(key, rz, K) ==
  /\ CanStep /\ est # <<>> /\ key \in RangeOf(skeys) /\ rz \in (-1)..(Len(ZDeltas) - 1)
  /\ ~NVecBad(Pred(def, key, est.x)) /\ ~NMatBad(SensJac(def, key, est.x))
  /\ ~NVecBad(K.innov) /\ ~NMatBad(K.S) /\ ~IsBad(K.detS) /\ RSign(K.detS) > 0
  /\ Fits(K.detS) /\ RLeq(One, K.detS)                               \* conditioning window (DESIGN 3.1)
  /\ ~NMatBad(K.Sinv) /\ ~IsBad(K.nis) /\ ~GateBad(def.k, K.m, K.nis)

UpdateAccept(key, rz) ==
  /\ "Update" \in Acts
  /\ LET z == ReadingFor(key, rz)
         K == Kalman(def, key, est, z) IN
     /\ UpdateCommon(key, rz, K)
     /\ ~Gate(def.k, K.m, K.nis)
     /\ ~NVecBad(K.x) /\ ~NMatBad(K.P)
     /\ est' = [x |-> K.x, P |-> K.P]
     /\ steps' = Append(steps, [act |-> "Update", key |-> key, z |-> z, outcome |-> "accepted",
                                x |-> K.x, P |-> K.P, innov |-> K.innov, S |-> K.S, nis |-> K.nis,
                                boundary |-> GateOnBoundary(def.k, K.m, K.nis)])
     /\ last' = [act |-> "Update", outcome |-> "accepted", prior |-> est, exact |-> (rz < 0),
                 nis |-> K.nis, S |-> K.S, key |-> key, z |-> z]
  /\ UNCHANGED <<phase, shape, prm, names, skeys, rnames, pts, pool, upd, sens, def, twin>>

\* a discarded reading leaves the estimate EXACTLY as it was, but the innovation is recorded
UpdateReject(key, rz) ==
  /\ "Update" \in Acts
  /\ LET z == ReadingFor(key, rz)
         K == Kalman(def, key, est, z) IN
     /\ UpdateCommon(key, rz, K)
     /\ Gate(def.k, K.m, K.nis)
     /\ steps' = Append(steps, [act |-> "Update", key |-> key, z |-> z, outcome |-> "rejected",
                                x |-> est.x, P |-> est.P, innov |-> K.innov, S |-> K.S, nis |-> K.nis,
                                boundary |-> FALSE])
     /\ last' = [act |-> "Update", outcome |-> "rejected", prior |-> est, exact |-> (rz < 0),
                 nis |-> K.nis, S |-> K.S]
  /\ UNCHANGED <<phase, shape, prm, names, skeys, rnames, pts, pool, upd, sens, def, est, twin>>

\* ---- the scikit-learn adapter's transform (C16) ---------------------------------
\* the adapter starts from the default estimate: zero state, unit covariance (C13 defaults)
DefaultEstimate ==
  /\ CanStep /\ "DefaultEstimate" \in Acts /\ est = <<>>
  /\ est' = [x |-> [s \in StateOf |-> Zero], P |-> [r \in StateOf |-> [c \in StateOf |-> IF r = c THEN One ELSE Zero]]]
  /\ steps' = Append(steps, [act |-> "DefaultEstimate", x |-> est'.x, P |-> est'.P])
  /\ last' = [act |-> "DefaultEstimate"]
  /\ UNCHANGED <<phase, shape, prm, names, skeys, rnames, pts, pool, upd, sens, def, twin>>

AdapterDt == <<1, 10>>      \* the adapter's fixed step

\* fold the sensors in key order over one data row; acc = [est, nis (key -> R), out (key -> outcome), bad]
RECURSIVE FoldSensors(_, _, _)
FoldSensors(keys, z, acc) ==
  IF keys = <<>> \/ acc.bad THEN acc
  ELSE LET key == Head(keys)
           K == Kalman(def, key, acc.est, z[key])
           bad == \/ NVecBad(Pred(def, key, acc.est.x)) \/ NMatBad(SensJac(def, key, acc.est.x))
                  \/ NVecBad(K.innov) \/ NMatBad(K.S) \/ IsBad(K.detS) \/ ~Fits(K.detS)
                  \/ (Fits(K.detS) /\ ~RLeq(One, K.detS))
                  \/ NMatBad(K.Sinv) \/ IsBad(K.nis) \/ GateBad(def.k, K.m, K.nis)
                  \/ NVecBad(K.x) \/ NMatBad(K.P)
       IN IF bad THEN [acc EXCEPT !.bad = TRUE]
          ELSE LET rej == Gate(def.k, K.m, K.nis) IN
               FoldSensors(Tail(keys), z,
                 [est |-> IF rej THEN acc.est ELSE [x |-> K.x, P |-> K.P],
                  nis |-> (key :> K.nis) @@ acc.nis,
                  out |-> (key :> (IF rej THEN "rejected" ELSE "accepted")) @@ acc.out,
                  bad |-> FALSE])

\* one row of the data matrix: [controls..., readings of each sensor in key order...]
TransformRow(r, rz) ==
  /\ CanStep /\ "TransformRow" \in Acts /\ est # <<>> /\ skeys # <<>>
  /\ r \in 0..(Len(Vals) - 1) /\ rz \in 0..(Len(ZDeltas) - 1)
  /\ LET u == [c \in CtrlOf |-> Ring(Vals, Slot(c), r)]
         z == [key \in RangeOf(skeys) |->
                 LET j == IndexOf(key, skeys) IN
                 [rd \in RangeOf(rnames[j]) |-> Ring(ZDeltas, FlatIx(j, IndexOf(rd, rnames[j])), rz)]]
         p == PredictF(def, AdapterDt, est, u)
         pbad == NVecBad(p.x) \/ NMatBad(p.P)
         acc == IF pbad THEN [bad |-> TRUE]
                ELSE FoldSensors(Ord(RangeOf(skeys)), z, [est |-> p, nis |-> <<>>, out |-> <<>>, bad |-> FALSE]) IN
     /\ ~acc.bad
     /\ est' = acc.est
     /\ steps' = Append(steps, [act |-> "TransformRow", u |-> u, z |-> z, nis |-> acc.nis, outcomes |-> acc.out,
                                x |-> acc.est.x, P |-> acc.est.P, keyorder |-> Ord(RangeOf(skeys)),
                                ctlorder |-> Ord(CtrlOf),
                                rorder |-> [key \in RangeOf(skeys) |-> Ord(RangeOf(rnames[IndexOf(key, skeys)]))]])
     /\ last' = [act |-> "TransformRow", nis |-> acc.nis]
  /\ UNCHANGED <<phase, shape, prm, names, skeys, rnames, pts, pool, upd, sens, def, twin>>

(***************************************************************************)
(* The adapter's score, as a formula TREE over the normalised innovations  *)
(* (bias / variance / size combination documented in python.py):           *)
(*   10 * mean(sqrt(nis))^2 + (1/sum(nis) + sum(nis))/2 + 0.01 * sum(noise^2)*)
(***************************************************************************)
RECURSIVE SumTree(_)
SumTree(ts) == IF Len(ts) = 1 THEN ts[1] ELSE Bin("add", SumTree(SubSeq(ts, 1, Len(ts) - 1)), ts[Len(ts)])
NisList == LET RECURSIVE Collect(_)
               Collect(i) == IF i = 0 THEN <<>>
                             ELSE Collect(i - 1) \o (IF steps[i].act = "TransformRow"
                                                      THEN [j \in 1..Len(steps[i].keyorder) |-> steps[i].nis[steps[i].keyorder[j]]]
                                                      ELSE <<>>)
           IN Collect(Len(steps))
NoiseList == LET co == Ord(CtrlOf) IN
             [i \in 1..Len(co) |-> def.pnoise[co[i]]] \o
             LET RECURSIVE PerKey(_)
                 PerKey(ks) == IF ks = <<>> THEN <<>>
                               ELSE LET ro == Ord(DOMAIN def.snoise[Head(ks)]) IN
                                    [j \in 1..Len(ro) |-> def.snoise[Head(ks)][ro[j]]] \o PerKey(Tail(ks))
             IN PerKey(Ord(DOMAIN def.snoise))
ScoreTree ==
  LET ns == NisList  qs == NoiseList
      n == Len(ns)
      sqrts == [i \in 1..n |-> Fn("sqrt", Const(ns[i]))]
      mean == Bin("div", SumTree(sqrts), CI(n))
      total == SumTree([i \in 1..n |-> Const(ns[i])])
      size == IF qs = <<>> THEN CI(0) ELSE SumTree([i \in 1..Len(qs) |-> Pow(Const(qs[i]), 2)])
  IN Bin("add", Bin("add", Bin("mul", CI(10), Pow(mean, 2)),
                           Bin("div", Bin("add", Bin("div", CI(1), total), total), CI(2))),
                Bin("mul", Const(<<1, 100>>), size))

Rho == [i \in 1..Len(twin) |-> <<names[i], twin[i]>>]
LayoutOf == [state |-> Ord(StateOf), control |-> Ord(CtrlOf), calib |-> Ord(CalibOf), sensors |-> Ord(RangeOf(skeys)),
             readings |-> [key \in RangeOf(skeys) |-> Ord(RangeOf(rnames[IndexOf(key, skeys)]))]]
Scenario == [def |-> def, rename |-> Rho, layout |-> LayoutOf, names |-> names, skeys |-> skeys, rnames |-> rnames, steps |-> steps,
             score |-> IF NisList = <<>> THEN <<>> ELSE ScoreTree]

Emit ==
  /\ phase = "run" /\ Len(steps) >= MinSteps /\ EmitOn
  /\ PrintT(ToJson(Scenario))
  /\ phase' = "done"
  /\ UNCHANGED <<shape, prm, names, skeys, rnames, pts, pool, upd, sens, def, est, steps, last, twin>>

Next ==
  \/ \E n \in SymNames : PickName(n)
  \/ \E n \in SymNames : PickTwin(n)
  \/ \E k \in SensorNames : PickSensor(k)
  \/ \E r \in ReadingNames : PickReading(r)
  \/ \E i \in DOMAIN Dts : \E r \in 0..(Len(Vals) - 1) : AddPoint(i, r)
  \/ \E op \in Ops : \E i \in DOMAIN pool : \E j \in DOMAIN pool : Grow(op, i, j)
  \/ EndGrow
  \/ \E i \in DOMAIN pool : BindUpdate(i)
  \/ \E i \in DOMAIN pool : BindReading(i)
  \/ Compile
  \/ \E p \in RangeOf(pts) : ModelEval(p)
  \/ \E p \in RangeOf(pts) : \E s \in StateOf : ModelEvalNear(p, s)
  \/ \E p \in RangeOf(pts) : \E s \in StateOf : JacEvalNear(p, s)
  \/ \E p \in RangeOf(pts) : \E s \in StateOf : \E key \in RangeOf(skeys) : SensEvalNear(key, p, s)
  \/ \E p \in RangeOf(pts) : JacEval(p)
  \/ \E p \in RangeOf(pts) : \E key \in RangeOf(skeys) : SensEval(key, p)
  \/ \E p \in RangeOf(pts) : \E rp \in 0..(Len(PDiag) - 1) : SetEstimate(p, rp)
  \/ \E p \in RangeOf(pts) : Predict(p)
  \/ \E key \in RangeOf(skeys) : \E rz \in (-1)..(Len(ZDeltas) - 1) : UpdateAccept(key, rz)
  \/ \E key \in RangeOf(skeys) : \E rz \in (-1)..(Len(ZDeltas) - 1) : UpdateReject(key, rz)
  \/ DefaultEstimate
  \/ \E r \in 0..(Len(Vals) - 1) : \E rz \in 0..(Len(ZDeltas) - 1) : TransformRow(r, rz)
  \/ Emit

Spec == Init /\ [][Next]_vars

(***************************************************************************)
(* Theorems of the model (checked by TLC as invariants over every          *)
(* reachable state; they are the listed properties or their stated         *)
(* consequences).                                                          *)
(***************************************************************************)
HasEst == est # <<>>
\* C09(i): the update forms preserve validity, exactly
InvCovValid == HasEst => NSymmetric(est.P) /\ NPSD(est.P, StateOf)
\* C05: a reading equal to the prediction leaves the state unchanged;
\*      the posterior never exceeds the prior
InvUpdate ==
  (last # <<>> /\ last.act = "Update" /\ last.outcome = "accepted") =>
     /\ (last.exact => est.x = last.prior.x)
     /\ LET so == Ord(StateOf) IN PSD(MSub(ToMat(last.prior.P, so, so), ToMat(est.P, so, so)))
\* C05 (any positive per-reading noise, any scale): measuring one reading in other units -- reading, prediction and noise
\* standard deviation all multiplied by c -- is the same information, so the corrected estimate is the same.  The replay harness
\* uses this with c = 2^22 (exact in binary floating point), which spreads the eigenvalues of S over thirteen decades.
ScaleReading(d, key, r0, c) ==
  [d EXCEPT !.sensors[key][r0] = Bin("mul", CI(c), @), !.snoise[key][r0] = RMul(RI(c * c), @)]
InvRescale ==
  (last # <<>> /\ last.act = "Update" /\ last.outcome = "accepted") =>
     LET key == last.key
         r0 == Ord(Readings(def, key))[1]
         d2 == ScaleReading(def, key, r0, 4)
         z2 == [last.z EXCEPT ![r0] = RMul(RI(4), @)]
         K2 == Kalman(d2, key, last.prior, z2) IN
     (IsBad(z2[r0]) \/ NVecBad(K2.x) \/ NMatBad(K2.P) \/ NMatBad(K2.S)) \/ (K2.x = est.x /\ K2.P = est.P)
\* C05 (spec level): only the RATIO of prior covariance and sensor noise matters.  With P and the noise of the sensor both scaled
\* by c the gain is the same, the corrected state is the same and the posterior covariance is c times the old one.  TLC checks
\* it exactly with c = 1/4; the replay harness uses c = 2^-40 (variances of 1e-12: nothing may be compared against an absolute
\* tolerance).
ScaleNoise(d, key, c) == [d EXCEPT !.snoise[key] = [r \in DOMAIN @ |-> RMul(c, @[r])]]
ScaleMat(F, c) == [r \in DOMAIN F |-> [cc \in DOMAIN F[r] |-> RMul(c, F[r][cc])]]
InvScaleCov ==
  (last # <<>> /\ last.act = "Update" /\ last.outcome = "accepted") =>
     LET key == last.key
         c == RQ(1, 4)
         K2 == Kalman(ScaleNoise(def, key, c), key, [x |-> last.prior.x, P |-> ScaleMat(last.prior.P, c)], last.z) IN
     (NVecBad(K2.x) \/ NMatBad(K2.P) \/ NMatBad(K2.S) \/ NMatBad(ScaleMat(est.P, c))) \/ (K2.x = est.x /\ K2.P = ScaleMat(est.P, c))
\* C04 (spec level): a control input measured in other units changes nothing.  With u0 = c * u0' the update expressions read
\* c * u0' wherever they read u0, the control Jacobian column grows by c and the noise variance of u0' is M/c^2: V M V^T is the same.
\* TLC checks it exactly with c = 4; the replay harness uses c = 2^20, which takes the variance down to ~1e-12 -- noise
\* magnitudes the exact window cannot hold.
ScaleControl(d, c0, c) ==
  [d EXCEPT !.update = [s \in DOMAIN d.update |-> ScaleSym(d.update[s], c0, c)], !.pnoise[c0] = RDiv(@, RI(c * c))]
InvRescaleControl ==
  (last # <<>> /\ last.act = "Predict" /\ CtrlOf # {}) =>
     LET c0 == Ord(CtrlOf)[1]
         d2 == ScaleControl(def, c0, 4)
         u2 == [last.u EXCEPT ![c0] = RDiv(@, RI(4))]
         n2 == PredictF(d2, last.dt, last.prior, u2) IN
     (IsBad(u2[c0]) \/ NVecBad(n2.x) \/ NMatBad(n2.P)) \/ (n2.x = est.x /\ n2.P = est.P)
\* C06: a discard changes nothing; with filtering disabled nothing is discarded
InvReject ==
  (last # <<>> /\ last.act = "Update" /\ last.outcome = "rejected") =>
     est = last.prior /\ def.k # NoGate
\* C16: every normalised innovation squared is non-negative
InvNisNonNeg == /\ (last # <<>> /\ last.act = "Update") => RSign(last.nis) >= 0
                /\ (last # <<>> /\ last.act = "TransformRow") => \A k \in DOMAIN last.nis : RSign(last.nis[k]) >= 0
\* C13 (spec level): consistently renaming the symbols -- which permutes every internal layout -- leaves every
\* named output unchanged.  True here because FilterMath never mentions positions; TLC checks it anyway.
RhoF == [n \in RangeOf(names) |-> twin[IndexOf(n, names)]]
RhoInv == [t \in RangeOf(twin) |-> names[IndexOf(t, twin)]]
RenSet(S) == {RhoF[n] : n \in S}
RenVec(f) == [t \in RenSet(DOMAIN f) |-> f[RhoInv[t]]]
RenDef(d) == [state |-> RenSet(d.state), control |-> RenSet(d.control), calib |-> RenSet(d.calib),
              update |-> [t \in RenSet(d.state) |-> RenameExpr(d.update[RhoInv[t]], RhoF)],
              calmap |-> RenVec(d.calmap), pnoise |-> RenVec(d.pnoise),
              sensors |-> [k \in DOMAIN d.sensors |-> [r \in DOMAIN d.sensors[k] |-> RenameExpr(d.sensors[k][r], RhoF)]],
              snoise |-> d.snoise, k |-> d.k]
InvRenaming ==
  (Twins /\ phase \in {"run", "done"}) =>
    \A p \in RangeOf(pts) :
      LET e == PointEnv(p)
          d2 == RenDef(def)
          a == Step(def, e.dt, e.x, e.u)
          b == Step(d2, e.dt, RenVec(e.x), RenVec(e.u)) IN
      /\ \A s \in StateOf : a[s] = b[RhoF[s]]
      /\ \A key \in DOMAIN def.sensors : Pred(def, key, e.x) = Pred(d2, key, RenVec(e.x))
\* innovation covariance is symmetric positive definite
InvSPD == (last # <<>> /\ last.act = "Update") =>
             NSymmetric(last.S) /\ PD(ToMat(last.S, Ord(DOMAIN last.S), Ord(DOMAIN last.S)))
=============================================================================
