"""Generic driver for the numeric filter properties: TLC behaviours of Formak.tla replayed into Python."""
import json

import scen
from build import Definition
from common import finish


def run_numeric(ctx, sim, sim_num_quick, sim_num_thorough, exhaustive=None, e_sample_quick=None,
                cse_settings=(False, True), rule="", scope="", assumptions=None, key_prefix="", force_ekf=False,
                post=None, timeout=120, repo_tests=False, corpus=None, extra_sims=None):
    quick = ctx.quick
    scns, stats = scen.generate(ctx, exhaustive, sim, sim_num=(sim_num_quick if quick else sim_num_thorough),
                                sim_depth=90, e_sample=(e_sample_quick if quick else None))
    assumptions = assumptions or []
    for extra_sim, extra_num in (extra_sims or []):       # further configurations of the same specification (focused shapes)
        if scns is None:
            break
        more, st2 = scen.generate(ctx, None, extra_sim, sim_num=(extra_num if quick else extra_num * 10), sim_depth=90)
        if more is None:
            scns, stats = None, st2
            break
        for m_ in more:
            m_["_id"] = str(m_.get("_id", "")) + ":mix"
        scns += more
        stats["states"] += st2.get("states", 0)
        stats["transitions"] += st2.get("transitions", 0)
        stats["tlc_runs"] = stats.get("tlc_runs", []) + st2.get("tlc_runs", [])
    for path in (corpus or []):          # fixed inputs: the failing input of every recorded finding is exercised on every run
        if scns is not None:
            c = json.load(open(path))["scenario"]
            c["_id"] = "corpus:" + path.split("/")[-1]
            scns.append(c)
    if scns is None:
        ctx.violation("spec-invariant", stats["tlc_violation"][:800], stats)
        return finish(ctx, "model_checking", {"states": 1, "transitions": 1, "traces_validated_against_impl": 0,
                                              "samples": [stats]}, assumptions)
    checked, bad = scen.cross_validate_interp(scns)
    if bad:
        raise RuntimeError("reference interpreter disagrees with TLC on the rational fragment: %r" % (bad[:3],))
    results = scen.replay_all(ctx, scns, cse_settings=cse_settings, timeout=timeout, force_ekf=force_ekf)
    counters = scen.record_results(ctx, results, key_prefix=key_prefix)
    extra = post(ctx, scns, results) if post else {}
    if repo_tests and not quick:
        import repotests          # thorough tier: the repository's own tests, recorded and validated against EKFCalls.tla
        extra["repo_tests"] = repotests.run(ctx, ctx.prop)
    defs = {}
    for s in scns:
        d = Definition(s["def"])
        defs[d.canonical()] = d.nontrivial()
    acts = {}
    for s in scns:
        for st in s["steps"]:
            k = st["act"] + (":" + st["outcome"] if "outcome" in st else "")
            acts[k] = acts.get(k, 0) + 1
    cov = {
        "states": stats["states"], "transitions": stats["transitions"],
        "traces_validated_against_impl": len(scns),
        "samples": [scen.summarise(s) for s in scns[:2]] + [scen.summarise(s) for s in scns[-1:]],
        "programs": len(defs), "distinct_nontrivial": sum(1 for v in defs.values() if v),
        "evaluations": counters["values_compared"], "actions_replayed": acts,
        "rule": rule, "exhaustive": bool(stats.get("exhaustive_replayed_all")) if exhaustive else False,
        "exhaustive_scope": scope, "interp_cross_checked_values": checked,
        "tlc_runs": stats["tlc_runs"], **counters, **extra,
    }
    return finish(ctx, "model_checking", cov, assumptions)


def replay_file(ctx, path, force_ekf=False):
    body = json.load(open(path))
    s = body["payload"]["scenario"]
    s["_id"] = "replay"
    results = scen.replay_all(ctx, [s], cse_settings=(body["payload"].get("cse", True),), force_ekf=force_ekf)
    scen.record_results(ctx, results)
    for v in ctx.violations:
        print("VIOLATION property=%s replay=%s" % (ctx.prop, path))
        print("  " + v["detail"])
        return 1
    print("replay: no violation")
    return 0


BASE_ASSUME = ["TLC's exact rational arithmetic (Rational.tla, Linalg.tla, FilterMath.tla) is the oracle",
               "tolerance 1e-9 relative to max(1,|exact|); inputs small integers / dyadic rationals; det S >= 1",
               "values are written and read BY NAME through the layouts the objects publish"]
