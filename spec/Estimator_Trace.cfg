INIT TInit
NEXT TNext
CONSTANTS
  Universes <- cUniverses
  ModelToks = {"M1", "M2"}
  SModelToks = {"S1"}
  CalToks = {"C1"}
  PNoiseToks = {"pnA", "pnB"}
  AltModelToks = {"M3"}
  AltPNoiseToks = {"pnC"}
  SNoiseToks = {"snA", "snB"}
  ConfigVals <- cConfigVals
  BogusKeys = {"bogus", "max_dt", "processnoise"}
  MaxCmds = 1000
  MaxFits = 2000
  EmitOn = FALSE
CONSTRAINT Reach
POSTCONDITION Post
CHECK_DEADLOCK FALSE
