INIT Init
NEXT Next
CONSTANTS
  MaxFaults = 1
  Bases <- cBases
  EmitOn = TRUE
INVARIANT InvFaultedInvalid
INVARIANT InvMonotone
CHECK_DEADLOCK FALSE
