"""C17 -- estimator parameters round-trip; fitting only retunes noise."""
import json
import math
import traceback

import tlc
import trace
import workers
from common import finish

LEVEL = "model_checking"
ASSUME = ["command sequences are behaviours of Estimator.tla (TLC simulate); they are executed on a real SklearnEKFAdapter and the recorded "
          "events (command, outcome, projected parameter state) are validated by TLC against Estimator_Trace.tla (fit is nondeterministic: "
          "FitOk or FitFail, TLC infers which)",
          "projection: model / sensor-model / calibration tokens by identity or structural equality, noise maps as (key set, finite, positive), "
          "configuration fields as value tokens"]

CFG_TOK = {"common_subexpression_elimination": {"true": True, "false": False},
           "extra_validation": {"false": False, "true": True},
           "max_dt_sec": {"0.1": 0.1, "0.05": 0.05},
           "innovation_filtering": {"none": None, "5.0": 5.0, "2.5": 2.5}}


CORPUS_NONCONVERGING = [(2, 23, "2.5")]


def universe(mods, u):
    """Concrete objects for universe u (1-based index into MC_Estimator!cUniverses)."""
    ui, python = mods["ui"], mods["python"]
    S = ui.Symbol
    dt, x, v, a, B, k = S("dt"), S("x"), S("v"), S("a"), S("B"), S("k")
    thrust, u1, U2 = S("thrust"), S("u1"), S("U2")       # the renamed controls of model M3
    if u == 1:
        mk = lambda g: ui.Model(dt=dt, state={x}, control=set(), state_model={x: x * (1 + g * dt / 8)})
        m3 = mk(3)
        sensors = {"pos": {"p": x}}
        pn = {"pnA": {}, "pnB": {}, "pnC": {}}
        sn = {"snA": {"pos": {"p": 1.0}}, "snB": {"pos": {"p": 0.5}}}
        cal = {}
        ncols = (0, [1])
    elif u == 2:
        mk = lambda g: ui.Model(dt=dt, state={x, v}, control={a}, state_model={x: x + g * v * dt, v: v + a * dt})
        m3 = ui.Model(dt=dt, state={x, v}, control={thrust}, state_model={x: x + 3 * v * dt, v: v + thrust * dt})
        sensors = {"pos": {"p": x}, "vel2": {"q": v, "r": x + v}}
        pn = {"pnA": {a: 1.0}, "pnB": {a: 0.25}, "pnC": {thrust: 0.75}}
        sn = {"snA": {"pos": {"p": 1.0}, "vel2": {"q": 0.5, "r": 2.0}}, "snB": {"pos": {"p": 2.0}, "vel2": {"q": 1.0, "r": 1.0}}}
        cal = {}
        ncols = (1, [1, 2])
    else:
        mk = lambda g: ui.Model(dt=dt, state={x, v}, control={a, B}, calibration={k},
                                state_model={x: x + g * v * dt, v: v + (a + B * k) * dt})
        m3 = ui.Model(dt=dt, state={x, v}, control={u1, U2}, calibration={k},
                      state_model={x: x + 3 * v * dt, v: v + (u1 + U2 * k) * dt})
        sensors = {"pos": {"p": x}, "vel2": {"q": v, "r": x + v}, "Alt": {"h": x + k, "R2": v, "zz": x - v}}
        pn = {"pnA": {a: 1.0, B: 0.5}, "pnB": {a: 0.25, B: 2.0}, "pnC": {u1: 0.75, U2: 1.5}}
        sn = {"snA": {"pos": {"p": 1.0}, "vel2": {"q": 0.5, "r": 2.0}, "Alt": {"h": 1.0, "R2": 1.5, "zz": 0.75}},
              "snB": {"pos": {"p": 2.0}, "vel2": {"q": 1.0, "r": 1.0}, "Alt": {"h": 0.5, "R2": 0.5, "zz": 2.0}}}
        cal = {k: 0.5}
        ncols = (2, [3, 1, 2])     # sensor key order: Alt, pos, vel2
    return {"M": {"M1": mk(1), "M2": mk(2), "M3": m3}, "S": {"S1": sensors}, "C": {"C1": cal}, "PN": pn, "SN": sn, "ncols": ncols}


def model_equal(m1, m2):
    try:
        return (set(m1.state) == set(m2.state) and set(m1.control) == set(m2.control) and set(m1.calibration) == set(m2.calibration)
                and m1.state_model == m2.state_model)
    except Exception:
        return False


def project(python, est, uni):
    p = est.get_params()

    def tok(obj, table, eq):
        for t, o in table.items():
            if obj is o:
                return t
        for t, o in table.items():
            if eq(obj, o):
                return t
        return "other"
    pn = p["process_noise"]
    sn = p["sensor_noises"]
    cfg = p["config"]
    cfgtok = {}
    for f, table in CFG_TOK.items():
        val = getattr(cfg, f)
        cfgtok[f] = next((t for t, v in table.items() if v == val and type(v) == type(val)), repr(val))
    cfgtok["python_modules"] = "default" if cfg.python_modules == python.DEFAULT_MODULES else "other"

    def fin(vals):
        return all(isinstance(v, (int, float)) or hasattr(v, "__float__") for v in vals) and all(math.isfinite(float(v)) for v in vals)
    pn_id = tok(pn, uni["PN"], lambda a, b: a == b)
    sn_id = tok(sn, uni["SN"], lambda a, b: a == b)
    return {"symbolic_model": tok(p["symbolic_model"], uni["M"], model_equal),
            "sensor_models": tok(p["sensor_models"], uni["S"], lambda a, b: a == b),
            "calibration_map": tok(p["calibration_map"], uni["C"], lambda a, b: a == b),
            "process_noise": {"id": pn_id if pn_id != "other" else "fitted", "keys": sorted(str(k) for k in pn),
                              "finite": fin(list(pn.values())), "positive": all(float(v) > 0 for v in pn.values())},
            "sensor_noises": {"id": sn_id if sn_id != "other" else "fitted",
                              "keys": {k: sorted(str(r) for r in m) for k, m in sn.items()},
                              "finite": fin([v for m in sn.values() for v in m.values()])},
            "config": cfgtok}


def project_exported(python, est, ekf):
    """the filter export_python hands out, against the estimator's CURRENT parameters (by name)"""
    import numpy as np
    p = est.get_params()
    cfg = ekf.config
    cfgtok = {}
    for f, table in CFG_TOK.items():
        val = getattr(cfg, f)
        cfgtok[f] = next((t for t, v in table.items() if v == val and type(v) == type(val)), repr(val))
    cfgtok["python_modules"] = "default" if cfg.python_modules == python.DEFAULT_MODULES else "other"
    m = p["symbolic_model"]
    ctl = sorted(m.control, key=lambda x: x.name)
    pn = {str(k): float(v) for k, v in p["process_noise"].items()}
    ok = ekf.process_noise.shape == (len(ctl), len(ctl))
    for i, a in enumerate(ctl):
        for j, b in enumerate(ctl):
            want = pn.get(str(a), 0.0) if i == j else 0.0
            ok = ok and float(ekf.process_noise[i, j]) == want
    for key, noise in p["sensor_noises"].items():
        rs = [str(r) for r in ekf.sensor_models[key].readings]
        Q = np.asarray(ekf.sensor_noises[key].data, dtype=float)
        ok = ok and Q.shape == (len(rs), len(rs))
        for i, a in enumerate(rs):
            for j, b in enumerate(rs):
                want = float({str(k): v for k, v in noise.items()}[a]) if i == j else 0.0
                ok = ok and float(Q[i, j]) == want
    layout = ([str(x) for x in ekf.arglist_state] == sorted(str(x) for x in m.state)
              and [str(x) for x in ekf.arglist_control] == sorted(str(x) for x in m.control)
              and sorted(ekf.sensor_models) == sorted(p["sensor_models"]))
    return {"config": cfgtok, "noises_match": bool(ok), "layout_ok": bool(layout)}


def run_cmds(mods, scn):
    """Execute one TLC command sequence on a real adapter; return the recorded trace (list of events)."""
    import copy
    import numpy as np
    from sklearn.base import clone
    python, exceptions = mods["python"], mods["exceptions"]
    uni = universe(mods, scn["universe"])
    # tokens whose concrete values coincide (universe 1 has no controls: pnA = pnB = {}) are one abstract value
    canon = {}
    for table in (uni["PN"], uni["SN"]):
        toks = sorted(table)
        for t in toks:
            canon[t] = next(t2 for t2 in toks if table[t2] == table[t])
    scn = json.loads(json.dumps(scn))
    scn["init"]["process_noise"]["id"] = canon[scn["init"]["process_noise"]["id"]]
    scn["init"]["sensor_noises"]["id"] = canon[scn["init"]["sensor_noises"]["id"]]
    for c in scn["cmds"]:
        if c["cmd"] == "set_params" and c["args"][0] in ("process_noise", "sensor_noises"):
            c["args"][1] = canon[c["args"][1]]
        if c["cmd"] == "set_params" and len(c["args"]) == 4 and c["args"][2] == "process_noise":
            c["args"][3] = canon[c["args"][3]]
    init = scn["init"]
    cfg = python.Config(**{f: CFG_TOK[f][init["config"][f]] for f in CFG_TOK})
    # fresh copies of the noise maps for this run (fit may touch them)
    uni["PN"] = {t: dict(v) for t, v in uni["PN"].items() if canon[t] == t}
    uni["SN"] = {t: {k: dict(m) for k, m in v.items()} for t, v in uni["SN"].items() if canon[t] == t}
    est = python.SklearnEKFAdapter.Create(uni["M"][init["symbolic_model"]], uni["PN"][init["process_noise"]["id"]],
                                          uni["S"][init["sensor_models"]], uni["SN"][init["sensor_noises"]["id"]],
                                          uni["C"][init["calibration_map"]], config=cfg)
    nctl, widths = uni["ncols"]
    # training / query data: finite matrices of matching width, varied per sequence (shape, scale, drift)
    dseed = int(scn.get("data_seed", 0))
    rng = np.random.default_rng(12345 + 1000 * scn["universe"] + dseed)
    nrows = 5 + dseed % 8
    X = rng.normal(size=(nrows, nctl + sum(widths))) * [0.1, 0.5, 2.0][dseed % 3]
    if dseed % 2 == 1:
        X[:, nctl:] = np.cumsum(X[:, nctl:], axis=0)          # drifting readings
    X = np.round(X, 3)
    events = [{"cmd": "create", "universe": scn["universe"], "post": project(python, est, uni)}]
    for c in scn["cmds"]:
        ev = {"cmd": c["cmd"], "args": c["args"], "outcome": "ok"}
        try:
            if c["cmd"] == "get_then_set":
                p = est.get_params()
                r = est.set_params(**p)
                if r is not est:
                    ev["outcome"] = "set_params-did-not-return-self"
            elif c["cmd"] == "set_params" and len(c["args"]) == 4:
                k1, v1, k2, v2 = c["args"]
                kw = {}
                for k, v in ((k1, v1), (k2, v2)):
                    if k == "config":
                        kw[k] = python.Config(**{f: CFG_TOK[f][v[f]] for f in CFG_TOK})
                    elif k == "symbolic_model":
                        kw[k] = uni["M"][v]
                    else:
                        kw[k] = uni["PN"][v] if k == "process_noise" else CFG_TOK[k][v] if k in CFG_TOK else python.DEFAULT_MODULES
                est.set_params(**kw)
            elif c["cmd"] == "set_params":
                k, v = c["args"]
                if k == "symbolic_model":
                    val = uni["M"][v]
                elif k == "sensor_models":
                    val = uni["S"][v]
                elif k == "calibration_map":
                    val = uni["C"][v]
                elif k == "process_noise":
                    val = uni["PN"][v]
                elif k == "sensor_noises":
                    val = uni["SN"][v]
                elif k == "config":
                    val = python.Config(**{f: CFG_TOK[f][v[f]] for f in CFG_TOK})
                elif k in CFG_TOK:
                    val = CFG_TOK[k][v]
                elif k == "python_modules":
                    val = python.DEFAULT_MODULES
                else:
                    val = 1.0
                try:
                    est.set_params(**{k: val})
                except exceptions.ModelConstructionError:
                    ev["outcome"] = "refused"
            elif c["cmd"] == "clone":
                other = clone(est)
                ev["clone"] = project(python, other, uni)
                ev["distinct_object"] = other is not est
                ev["post"] = project(python, est, uni)      # the original is left alone
                events.append(ev)
                est = other                                   # and the clone is what we go on with
                continue
            elif c["cmd"] == "transform":
                est.transform(X)
            elif c["cmd"] == "mahalanobis":
                est.mahalanobis(X)
            elif c["cmd"] == "score":
                est.score(X)
            elif c["cmd"] == "export_python":
                ev["exported"] = project_exported(python, est, est.export_python())
            elif c["cmd"] == "fit":
                try:
                    r = est.fit(X)
                    if r is not est:
                        ev["outcome"] = "fit-did-not-return-self"
                except exceptions.MinimizationFailure:
                    ev["outcome"] = "MinimizationFailure"
            elif c["cmd"] == "fit_transform":
                twin = clone(est)
                try:
                    out = est.fit_transform(X)
                    # the same thing in two steps on an identical estimator (the minimiser is deterministic)
                    want = twin.fit(X).transform(X)
                    ev["equals_transform_after_fit"] = bool(np.asarray(out).shape == np.asarray(want).shape
                                                            and np.allclose(np.asarray(out, dtype=float), np.asarray(want, dtype=float), rtol=1e-9, atol=1e-12, equal_nan=True))
                except exceptions.MinimizationFailure:
                    ev["outcome"] = "MinimizationFailure"
        except Exception as e:
            ev["outcome"] = "exception:" + type(e).__name__
            ev["detail"] = (repr(e)[:300] + " | " + traceback.format_exc()[-600:])
            ev["post"] = project(python, est, uni)
            events.append(ev)
            break
        ev["post"] = project(python, est, uni)
        events.append(ev)
    return events


def run(ctx):
    quick = ctx.quick
    r = tlc.run("MC_Estimator", mode="sim", workers=4, num=(40 if quick else 300), depth=14, seed=ctx.seed + 1, timeout=600)
    if r.violation:
        ctx.violation("spec-invariant", r.violation[:800], {})
    seqs = [s for s in r.printed if len(s["cmds"]) >= 2]
    # small exhaustive model check of the frame conditions as well
    re_ = tlc.run("MC_Estimator", cfg="MC_Estimator_E.cfg", workers=ctx.cores, timeout=900)
    if re_.violation:
        ctx.violation("spec-invariant", re_.violation[:800], {})
    withfit = [s for s in seqs if any(c["cmd"] in ("fit", "fit_transform") for c in s["cmds"])]
    nofit = [s for s in seqs if s not in withfit]
    seqs = withfit[: (6 if quick else 120)] + nofit[: (30 if quick else 300)]
    for i, s_ in enumerate(seqs):
        s_["data_seed"] = ctx.seed * 1000 + i
    # corpus: training sets found by search on which scipy's minimiser does NOT converge (the library's minimisation error path)
    for (u, ds, filt) in CORPUS_NONCONVERGING:
        init = {"symbolic_model": "M1", "sensor_models": "S1", "calibration_map": "C1", "process_noise": {"id": "pnA"}, "sensor_noises": {"id": "snA"},
                "config": {"common_subexpression_elimination": "false", "extra_validation": "false", "max_dt_sec": "0.1", "innovation_filtering": filt, "python_modules": "default"}}
        seqs.append({"universe": u, "init": init, "cmds": [{"cmd": "fit", "args": [], "outcome": "ok"}], "data_seed": ds})
        withfit.append(seqs[-1])
    # fixed sequences: fit, exchange the model for one whose controls have OTHER NAMES (with a noise map naming them), fit again,
    # and back -- whatever a fit caches about the model's controls must not survive the exchange
    for u in (2, 3):
        init = {"symbolic_model": "M1", "sensor_models": "S1", "calibration_map": "C1", "process_noise": {"id": "pnA"}, "sensor_noises": {"id": "snA"},
                "config": {"common_subexpression_elimination": "false", "extra_validation": "false", "max_dt_sec": "0.1", "innovation_filtering": "none", "python_modules": "default"}}
        cmds = [{"cmd": "fit", "args": [], "outcome": "ok"},
                {"cmd": "set_params", "args": ["symbolic_model", "M3", "process_noise", "pnC"], "outcome": "ok"},
                {"cmd": "fit", "args": [], "outcome": "ok"},
                {"cmd": "transform", "args": [], "outcome": "ok"},
                {"cmd": "set_params", "args": ["symbolic_model", "M2", "process_noise", "pnB"], "outcome": "ok"},
                {"cmd": "fit", "args": [], "outcome": "ok"}]
        seqs.append({"universe": u, "init": init, "cmds": cmds, "data_seed": 3 + u})
        withfit.append(seqs[-1])
    ctx.log("%d command sequences (%d with fit) -> real SklearnEKFAdapter" % (len(seqs), sum(1 for s in seqs if s in withfit)))
    res = workers.run_tasks([("props.c17", "run_cmds", (s,), 600) for s in seqs], procs=ctx.cores)
    traces, keep = [], []
    for s, (status, ev) in zip(seqs, res):
        if status != "ok":
            ctx.dropped += 1
            ctx.notes.append("%s %s" % (status, str(ev)[-300:]))
            continue
        traces.append(ev)
        keep.append(s)
    verdicts, tres = trace.validate("Estimator_Trace", traces, extra_files=None)
    ncmds = 0
    fit_outcomes = {}
    for s, ev, v in zip(keep, traces, verdicts):
        ncmds += len(ev) - 1
        for e in ev:
            if e["cmd"] in ("fit", "fit_transform"):
                fit_outcomes[e["outcome"]] = fit_outcomes.get(e["outcome"], 0) + 1
        if v is None:
            continue
        bad = ev[v] if v < len(ev) else ev[-1]
        prev = ev[v - 1]["post"] if v > 0 else None
        key = "%s:%s" % (bad["cmd"], bad["outcome"] if bad["outcome"] != "ok" else "state")
        ctx.violation(key, "event %d %s%s outcome=%s is not a behaviour of Estimator.tla; before=%s after=%s %s" %
                      (v, bad["cmd"], bad.get("args", ""), bad["outcome"], json.dumps(prev)[:300], json.dumps(bad.get("post"))[:300], bad.get("detail", "")[:300]),
                      {"sequence": s, "trace": ev, "first_rejected_event": v})
    cov = {"states": r.states + re_.distinct + (tres.distinct if tres else 0), "transitions": r.states + re_.states + (tres.states if tres else 0),
           "traces_validated_against_impl": len(traces), "events_validated": ncmds,
           "samples": [[{k: v for k, v in e.items() if k in ("cmd", "args", "outcome")} for e in traces[0]]] if traces else [],
           "evaluations": ncmds, "distinct_nontrivial": len(traces), "fit_outcomes": fit_outcomes,
           "rule": "case = command sequence (set_params on every parameter / configuration field / unknown names, get-then-set, clone, "
                   "transform, mahalanobis, score, export_python, fit, fit_transform) over 3 model universes (0/1/2 controls, 1/2/3 sensors of 1-3 readings)",
           "exhaustive_scope": "MC_Estimator_E: all command sequences of length <= 6 model-checked (VIEW without the command log) for the frame conditions (ActFrame, ActConfigFrame, InvNoiseKeys)"}
    return finish(ctx, LEVEL, cov, ASSUME)


def replay(ctx, path):
    body = json.load(open(path))
    res = workers.run_tasks([("props.c17", "run_cmds", (body["payload"]["sequence"],), 600)], procs=1)
    ev = res[0][1]
    verdicts, _ = trace.validate("Estimator_Trace", [ev])
    print(json.dumps(ev[-1], indent=1)[:1500])
    print("verdict:", verdicts[0])
    return 1 if verdicts[0] is not None else 0
