"""C07 -- the Python filter and the generated C++ filter agree step for step."""
import json

import cppcheck
import pyrep
import scen
from build import Definition
from common import finish

LEVEL = "model_checking"
ASSUME = ["long differential family: seeded random 40-call histories (dyadic inputs, several dt incl. zero and negative) on ONE Python filter object, "
          "recorded exactly, are replayed into the generated C++ filter; there the Python result is the expectation (no spec oracle; "
          "well-conditioned steps only, cond(S) <= 1e6)",
          "both implementations are stepped through the SAME behaviour of Formak.tla; each is compared with the spec's exact values "
          "and the two projected states with each other (1e-9 relative)",
          "Eigen stand-in + g++ 12 for the C++ side; values set and read by field name on both sides"]


def _cmp_traces(tp, tc, steps):
    """differential comparison python vs c++ per step -> list of (step, what, name, py, cpp)"""
    out = []
    for i, (a, b, st) in enumerate(zip(tp, tc, steps)):
        if not a or not b:
            continue
        for what in ("x", "innov", "xn", "h"):
            if what in a and what in b and isinstance(a[what], dict):
                for n, v in a[what].items():
                    if n in b[what] and not pyrep.close(b[what][n], v):
                        out.append((i, what, n, v, b[what][n]))
        for what in ("P", "G", "V", "H"):
            if what in a and what in b:
                for r, row in a[what].items():
                    for c, v in row.items():
                        w = b[what].get(r, {}).get(c)
                        if w is not None and not pyrep.close(w, v):
                            out.append((i, what, "%s,%s" % (r, c), v, w))
        if st["act"] == "Update":
            py_rej = st["outcome"] == "rejected"   # python side already compared with the spec's outcome
            cpp_unch = b.get("unchanged")
            if py_rej and cpp_unch != 1:
                out.append((i, "decision", st["key"], "rejected", "accepted"))
    return out


def long_history(mods, defj, seed, nsteps):
    """Python side of the long differential family: a seeded random history of `nsteps` calls with dyadic inputs on ONE filter
    object; every result is recorded EXACTLY (Fractions of the doubles) and becomes the expectation for the generated C++ filter.
    The history stops before a step whose innovation covariance is ill conditioned (cond > 1e6), when values leave 1e6, or when
    the Python filter refuses."""
    import random
    from fractions import Fraction
    import numpy as np
    ui, python = mods["ui"], mods["python"]
    d = Definition(defj)
    impl, model, symtab = pyrep.build_py(d, ui, python, True, True, "random:long:%s" % seed)
    rnd = random.Random(seed)

    def dy(lo, hi):
        return rnd.randint(lo * 8, hi * 8) / 8.0

    def R(v):
        f = Fraction(float(v))
        return [f.numerator, f.denominator]

    def vec(obj):
        return {str(s_): R(obj.data[i, 0]) for i, s_ in enumerate(obj._arglist)}

    def mat(obj):
        ns = [str(s_) for s_ in obj._arglist]
        return {r: {c: R(obj.data[i, j]) for j, c in enumerate(ns)} for i, r in enumerate(ns)}
    n = len(d.state)
    A = np.array([[dy(-1, 1) for _ in range(n)] for _ in range(n)])
    P0 = A @ A.T + np.eye(n) * dy(1, 3)
    state = impl.State(**{s_: dy(-2, 2) for s_ in d.state})
    cov = impl.Covariance.from_data(P0)
    steps = [{"act": "SetEstimate", "x": vec(state), "P": mat(cov)}]
    keys = sorted(d.sensors)
    for _ in range(nsteps):
        try:
            if keys and rnd.random() < 0.45:
                key = rnd.choice(keys)
                sm = impl.sensor_models[key]
                pred = sm.model(state)
                z = {str(r): float(pred.data[i, 0]) + dy(-2, 2) * (4.0 if rnd.random() < 0.15 else 0.25) for i, r in enumerate(sm.readings)}
                H = impl.sensor_jacobian(key, state)
                S = H @ cov.data @ H.T + impl.sensor_noises[key].data
                if not np.all(np.isfinite(S)) or np.linalg.cond(S) > 1e6:
                    break
                rd = impl.make_reading(key, **z)
                nxt = impl.sensor_model(state, cov, sensor_key=key, sensor_reading=rd)
                rejected = nxt.state is state
                steps.append({"act": "Update", "key": key, "z": {r: R(v) for r, v in z.items()}, "outcome": "rejected" if rejected else "accepted",
                              "x": vec(nxt.state), "P": mat(nxt.covariance),
                              "innov": {str(r): R(impl.innovations[key][i, 0]) for i, r in enumerate(sm.readings)}, "S": {}})
            else:
                dt = rnd.choice([0.125, 0.25, 0.5, 0.0625, -0.125, 0.0])
                u = {c: dy(-2, 2) for c in d.control}
                nxt = impl.process_model(dt, state, cov, impl.Control(**u))
                steps.append({"act": "Predict", "dt": R(dt), "u": {c: R(v) for c, v in u.items()}, "x": vec(nxt.state), "P": mat(nxt.covariance)})
            state, cov = nxt.state, nxt.covariance
            if not (np.all(np.isfinite(state.data)) and np.all(np.isfinite(cov.data))) or np.max(np.abs(state.data)) > 1e6 or np.max(np.abs(cov.data)) > 1e6:
                steps.pop()
                break
        except (AssertionError, ZeroDivisionError, FloatingPointError, np.linalg.LinAlgError):
            break
    for st in steps:
        st.pop("S", None)
    return {"def": defj, "steps": steps}


def _long_differential(ctx, scns):
    import workers
    picks = [s for s in scns if Definition(s["def"]).sensors][: (6 if ctx.quick else 120)]
    res = workers.run_tasks([("props.c07", "long_history", (s["def"], ctx.seed * 1000 + i, 40), 300) for i, s in enumerate(picks)], procs=ctx.cores)
    longs = []
    for s, (status, out) in zip(picks, res):
        if status == "ok" and len(out["steps"]) >= 5:
            out["_id"] = s.get("_id", "") + "-long"
            longs.append(out)
    rc = cppcheck.replay_cpp(ctx, longs, cse_settings=(True,), kind="ekf", presentation="random")
    c = cppcheck.record(ctx, rc, key_prefix="long-differential:cpp-vs-python:")
    c["long_histories"] = len(longs)
    c["long_history_steps"] = sum(len(x["steps"]) for x in longs)
    return c


def run(ctx):
    quick = ctx.quick
    n = 24 if quick else 480
    scns, stats = scen.generate(ctx, None, ("MC_EKF", "MC_C07_sim.cfg"), sim_num=n, sim_depth=90)
    if scns is None:
        ctx.violation("spec-invariant", stats["tlc_violation"][:800], stats)
        return finish(ctx, LEVEL, {"states": 1, "transitions": 1, "traces_validated_against_impl": 0, "samples": [stats]}, ASSUME)
    import workers
    tasks = []
    for s in scns:
        clean = {k: v for k, v in s.items() if not k.startswith("_")}
        for cse in (False, True):
            tasks.append(("tasks", "py_replay", (clean, cse, None, True, True), 120))
    ctx.log("replaying %d scenarios into Python" % len(scns))
    pres = workers.run_tasks(tasks, procs=ctx.cores)
    pyres = []
    k = 0
    for s in scns:
        for cse in (False, True):
            pyres.append((s, cse) + tuple(pres[k]))
            k += 1
    c_py = scen.record_results(ctx, pyres, key_prefix="py:")
    cres = cppcheck.replay_cpp(ctx, scns, cse_settings=(False, True), kind="ekf", keep_trace=True)
    c_cpp = cppcheck.record(ctx, cres, key_prefix="cpp:")
    # differential
    ndiff = 0
    bykey = {(id(r["scn"]), r["cse"]): r for r in cres}
    for s, cse, status, res in pyres:
        r = bykey.get((id(s), cse))
        if status != "ok" or r is None or r["status"] != "ok" or res["trace"] is None or r.get("trace") is None:
            continue
        diffs = _cmp_traces(res["trace"], r["trace"], s["steps"])
        ndiff += 1
        if diffs:
            i, what, name, a, b = diffs[0]
            ctx.violation("py-vs-cpp:" + what, "cse=%s step=%d %s[%s]: python=%r c++=%r" % (cse, i, what, name, a, b),
                          {"scenario": {k: v for k, v in s.items() if not k.startswith("_")}, "cse": cse, "diffs": diffs[:10]})
    longdiff = _long_differential(ctx, scns)
    defs = {}
    acts = {}
    for s in scns:
        d = Definition(s["def"])
        defs[d.canonical()] = d.nontrivial()
        for st in s["steps"]:
            kk = st["act"] + (":" + st["outcome"] if "outcome" in st else "")
            acts[kk] = acts.get(kk, 0) + 1
    cov = {"states": stats["states"], "transitions": stats["transitions"],
           "traces_validated_against_impl": len(scns) * 2,
           "samples": [scen.summarise(s) for s in scns[:2]],
           "programs": len(defs), "distinct_nontrivial": sum(1 for v in defs.values() if v),
           "evaluations": c_py["values_compared"] + c_cpp["cpp_values_compared"],
           "differential_comparisons": ndiff, "actions_replayed": acts,
           "rule": "behaviour = definition + SetEstimate / Predict / Update (accepted and rejected) / evaluation steps; replayed into the Python "
                   "EKF and the generated C++ EKF with CSE off and on; non-trivial = shared sub-term or >= 2 symbols",
           "tlc_runs": stats["tlc_runs"], "python": c_py, "cpp": c_cpp, "long_differential": longdiff}
    return finish(ctx, LEVEL, cov, ASSUME)


def replay(ctx, path):
    body = json.load(open(path))
    s = body["payload"]["scenario"]
    s["_id"] = "replay"
    cse = body["payload"].get("cse", True)
    r1 = scen.replay_all(ctx, [s], cse_settings=(cse,), force_ekf=True)
    scen.record_results(ctx, r1, key_prefix="py:")
    r2 = cppcheck.replay_cpp(ctx, [s], cse_settings=(cse,), kind="ekf")
    cppcheck.record(ctx, r2)
    for v in ctx.violations:
        print("VIOLATION property=%s replay=%s" % (ctx.prop, path))
        print("  " + v["detail"])
        return 1
    print("replay: no violation")
    return 0
