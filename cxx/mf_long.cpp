// Long single moves through the real ManagedFilter.h (tens of thousands of sub-steps): the recording Impl appends every
// step length to a global vector (no per-step copies).  stdin: "<maxN> <t0 seconds, hexfloat> <out seconds, hexfloat>" per line; stdout: "MOVE" then one
// hexfloat step length per line, then "END".   Build with -DHAS_CONTROL=0|1 -DHAS_CALIBRATION=0|1 -DUNIT_SCALE=<expr>
#include <formak/runtime/ManagedFilter.h>
#include <cstdio>
#include <type_traits>
#include <vector>
#ifndef UNIT_SCALE
#define UNIT_SCALE 0.01
#endif
static std::vector<double> g_steps;
struct Est { int dummy = 0; };
struct CalT { int token = 0; };
struct CtlT { int c = 0; };
template <int MAXN> struct Impl;
template <int MAXN> struct RB {
#if HAS_CALIBRATION
  virtual Est sensor_model(const Impl<MAXN>&, const Est&, const CalT&) const = 0;
#else
  virtual Est sensor_model(const Impl<MAXN>&, const Est&) const = 0;
#endif
  virtual ~RB() = default;
};
template <int MAXN> struct Impl {
  struct Tag {
    using StateAndVarianceT = Est;
#if HAS_CALIBRATION
    using CalibrationT = CalT;
#else
    using CalibrationT = std::false_type;
#endif
#if HAS_CONTROL
    using ControlT = CtlT;
#else
    using ControlT = std::false_type;
#endif
    using StampedReadingBaseT = RB<MAXN>;
    static constexpr double max_dt_sec = MAXN * UNIT_SCALE;
  };
#if HAS_CALIBRATION && HAS_CONTROL
  Est process_model(double dt, const Est& s, const CalT&, const CtlT&) const { g_steps.push_back(dt); return s; }
#elif HAS_CALIBRATION
  Est process_model(double dt, const Est& s, const CalT&) const { g_steps.push_back(dt); return s; }
#elif HAS_CONTROL
  Est process_model(double dt, const Est& s, const CtlT&) const { g_steps.push_back(dt); return s; }
#else
  Est process_model(double dt, const Est& s) const { g_steps.push_back(dt); return s; }
#endif
};
template <int MAXN> static void move(double t0, double out) {
  using MF = formak::runtime::ManagedFilter<Impl<MAXN>>;
#if HAS_CALIBRATION
  MF mf(t0, Est{}, CalT{1});
#else
  MF mf(t0, Est{});
#endif
  g_steps.clear();
#if HAS_CONTROL
  mf.tick(out, CtlT{1});
#else
  mf.tick(out);
#endif
  std::printf("MOVE\n");
  for (double d : g_steps) std::printf("%a\n", d);
  std::printf("END\n");
}
int main() {
  int maxn; double t0, out;   // times in SECONDS (hexfloat), max_dt_sec = maxn * UNIT_SCALE
  while (std::scanf("%d %la %la", &maxn, &t0, &out) == 3) {
    switch (maxn) {
      case 1: move<1>(t0, out); break;
      case 3: move<3>(t0, out); break;
      case 4: move<4>(t0, out); break;
      case 5: move<5>(t0, out); break;
      case 10: move<10>(t0, out); break;
      case 30: move<30>(t0, out); break;
      default: return 4;
    }
  }
  return 0;
}
