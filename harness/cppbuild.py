"""g++ helpers: compile small drivers against the real headers in /repo (and the Eigen stand-in)."""
import os
import subprocess
from concurrent.futures import ThreadPoolExecutor

REPO = os.environ.get("VERIF_REPO", "/repo")
STANDIN = "/verif/cxx/eigen_standin"
INCLUDES = ["-I" + STANDIN, "-I" + os.path.join(REPO, "cpp/include"), "-I" + os.path.join(REPO, "cpp/runtime/include")]
CXX = ["g++", "-std=c++20", "-O0", "-w"]


def compile_one(job):
    """job = dict(sources=[...], out=path, defines=[...], includes=[...]) -> (ok, stderr)"""
    cmd = CXX + ["-D" + d for d in job.get("defines", [])] + INCLUDES + ["-I" + i for i in job.get("includes", [])] \
        + list(job["sources"]) + ["-o", job["out"]]
    try:
        p = subprocess.run(cmd, capture_output=True, text=True, timeout=job.get("timeout", 300))
    except subprocess.TimeoutExpired:
        return (None, "g++ timeout")
    return (p.returncode == 0, p.stderr[-4000:])


def compile_many(jobs, parallel=16):
    with ThreadPoolExecutor(max_workers=parallel) as ex:
        return list(ex.map(compile_one, jobs))


def run_exe(path, stdin_text="", timeout=120, args=()):
    p = subprocess.run([path] + list(args), input=stdin_text, capture_output=True, text=True, timeout=timeout)
    return p.returncode, p.stdout, p.stderr
