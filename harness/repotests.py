"""Trace validation of the repository's OWN tests (DESIGN 9.7).

The whole pytest suite of the repository is run under harness/repo_ekf_recorder.py (a pytest plugin; nothing in /repo is
touched).  Every python.Model.model / ExtendedKalmanFilter.process_model / sensor_model call is recorded with the definition
its object was built from.  Derive.tla differentiates each definition symbolically (by name); this module evaluates those
trees at the recorded inputs, folds them with FilterMath's formulas in floating point and PROJECTS every call to an event
    [kind, claim, outcome, kept, valid_out, match, gate, gate_on, unchanged]
EKFCalls_Trace.tla decides whether the events of one object are a behaviour of the call protocol EKFCalls.tla.

A rejected event is attributed to the property whose clause failed:
    C01 model value           C04 prediction value / inputs modified      C05 update value / inputs modified
    C06 gate decision, discarded update not returned untouched             C09 refused / raised / invalid covariance out
"""
import json
import math
import os
import subprocess
import tempfile

import tlc
import trace
from build import interp
from props.c09 import valid_cov

BOUND = 1e6
CLAUSE_PROP = {"model-value": "C01", "model-raised": "C01", "model-inputs-modified": "C01",
               "predict-value": "C04", "predict-inputs-modified": "C04",
               "update-value": "C05", "update-inputs-modified": "C05",
               "gate-decision": "C06", "discard-not-untouched": "C06",
               "refused-valid": "C09", "raised": "C09", "invalid-output": "C09"}


# ------------------------------------------------------------------------- record ----
def record(ctx, tests=None):
    fd, rec = tempfile.mkstemp(prefix="verif-repotests-", suffix=".jsonl")
    os.close(fd)
    os.unlink(rec)
    env = dict(os.environ)
    env["VERIF_RECORD_FILE"] = rec
    env["PYTHONPATH"] = "/verif/harness"
    env["PYTHONDONTWRITEBYTECODE"] = "1"
    env.pop("FORMAK_VERIF", None)
    repo = os.environ.get("VERIF_REPO", "/repo")
    cmd = ["/venv/bin/python", "-m", "pytest", "-q", "-p", "no:cacheprovider", "-p", "repo_ekf_recorder", "--timeout=900", "--continue-on-collection-errors"]
    p = subprocess.run(cmd + (tests or []), cwd=repo, env=env, capture_output=True, text=True, timeout=3600)
    out = []
    try:
        if os.path.exists(rec):
            for line in open(rec):
                try:
                    out.append(json.loads(line))
                except ValueError:
                    pass          # a test killed mid-write
    finally:
        if os.path.exists(rec):
            os.unlink(rec)
    tail = p.stdout.strip().splitlines()[-1:] if p.stdout.strip() else []
    return out, {"pytest_exit": p.returncode, "pytest_tail": tail}


# ------------------------------------------------------------------------- derive ----
def derive(defs):
    """defs: {fid: def}.  -> {fid: {"G":..,"V":..,"H":..}} from Derive.tla (distinct definitions are sent once)."""
    uniq, owner = {}, {}
    for fid, d in defs.items():
        if not d.get("supported"):
            continue
        body = {"state": d["state"], "control": d["control"], "update": d["update"], "sensors": d.get("sensors", {})}
        key = json.dumps(body, sort_keys=True)
        if key not in uniq:
            uniq[key] = (len(uniq) + 1, body)
        owner[fid] = uniq[key][0]
    if not uniq:
        return {}, None
    fd, path = tempfile.mkstemp(prefix="verif-derive-", suffix=".json")
    try:
        with os.fdopen(fd, "w") as fh:
            json.dump([{"id": i, "def": b} for i, b in sorted(uniq.values(), key=lambda t: t[0])], fh)
        res = tlc.run("Derive", cfg="Derive.cfg", workers=1, timeout=1800, extra_env={"TRACE_FILE": path})
    finally:
        os.unlink(path)
    if res.violation:
        raise tlc.TLCError("Derive.tla failed: " + res.violation[:600])
    by_id = {r["id"]: r["jac"] for r in res.printed}
    if len(by_id) != len(uniq):
        raise tlc.TLCError("Derive.tla: %d of %d definitions derived" % (len(by_id), len(uniq)))
    return {fid: by_id[i] for fid, i in owner.items()}, res


def _named(x):
    return x if isinstance(x, dict) else {}


# ---------------------------------------------------------------------- projection ----
def _finite_bounded(*arrs):
    import numpy as np
    for a in arrs:
        if a is None:
            continue
        a = np.asarray(a, dtype=float)
        if a.size and (not np.all(np.isfinite(a)) or np.max(np.abs(a)) > BOUND):
            return False
    return True


def _env(d, c):
    env = dict(d["params"])
    env.update(d["calmap"])
    for n, v in zip(d["state"], c["x"]):
        env[n] = v[0]
    if c.get("u") is not None:
        for n, v in zip(d["control"], c["u"]):
            env[n] = v[0]
    elif d["control"]:
        for n in d["control"]:
            env[n] = 0.0
    if "dt" in c:
        env["dt"] = c["dt"]
    return env


def _close(got, want, tol):
    import numpy as np
    got, want = np.asarray(got, dtype=float), np.asarray(want, dtype=float)
    if got.shape != want.shape:
        return False
    return bool(np.all(np.abs(got - want) <= tol))


def project(d, jac, c):
    """one recorded call -> (event, detail).  d: recorded definition, jac: Derive.tla's trees (or None)."""
    import numpy as np
    kind = c["kind"]
    ev = {"kind": kind, "claim": False, "outcome": c["outcome"] if c["outcome"] in ("ok", "refused") else "raised", "kept": bool(c.get("kept", True)),
          "valid_out": True, "match": "skip", "gate": "skip", "gate_on": False, "unchanged": False}
    detail = {}
    if not c.get("wellformed"):
        return ev, detail
    if c["outcome"] == "exception:FloatingPointError":
        # only possible when the CALLER asked NumPy to trap floating-point events (np.seterr(all="raise") leaks from an earlier
        # test of the session into featuretests/common_subexpression_elimination, whose 1024-fold products underflow): no claim
        detail["no_claim"] = "caller-configured floating-point trap"
        return ev, detail
    ins = [c.get("x"), c.get("P"), c.get("u"), c.get("z"), [c["dt"]] if "dt" in c else None]
    if not _finite_bounded(*ins):
        return ev, detail
    if kind != "model" and not valid_cov(c["P"]):
        return ev, detail
    ev["claim"] = True
    if c["outcome"] != "ok":
        return ev, detail
    x2 = np.asarray(c["x2"], dtype=float)
    if kind != "model":
        P = np.asarray(c["P"], dtype=float)
        P2 = np.asarray(c["P2"], dtype=float)
        ref = float(np.max(np.abs(P))) if P.size else 0.0
        ev["valid_out"] = valid_cov(P2, ref)
    x = np.asarray(c["x"], dtype=float)
    supported = d.get("supported") and jac is not None
    S_names, C_names = d["state"], d["control"]
    try:
        if kind in ("model", "predict") and supported:
            env = _env(d, c)
            want_x = np.array([[interp(d["update"][n], env)] for n in S_names])
            if not np.all(np.isfinite(want_x)):
                raise ValueError("non-finite expectation")
            tol = 1e-9 * max(1.0, float(np.max(np.abs(want_x))) if want_x.size else 1.0)
            ok = _close(x2, want_x, tol)
            detail["x_expected"] = want_x.tolist()
            if kind == "predict":
                G = np.array([[interp(_named(jac["G"])[r][cc], env) for cc in S_names] for r in S_names]).reshape(len(S_names), len(S_names))
                V = np.array([[interp(_named(jac["V"])[r][cc], env) for cc in C_names] for r in S_names]).reshape(len(S_names), len(C_names))
                M = np.asarray(d["M"], dtype=float).reshape(len(C_names), len(C_names))
                want_P = G @ P @ G.T + V @ M @ V.T
                mag = (1.0 + (np.max(np.abs(G)) if G.size else 0.0)) ** 2 * (np.max(np.abs(P)) if P.size else 0.0) \
                    + (1.0 + (np.max(np.abs(V)) if V.size else 0.0)) ** 2 * (np.max(np.abs(M)) if M.size else 0.0)
                okP = _close(P2, want_P, 1e-9 * max(mag, 1e-300) * max(1, len(S_names)))
                detail["P_expected"] = want_P.tolist()
                ok = ok and okP
            ev["match"] = "yes" if ok else "no"
        elif kind == "update":
            k = c.get("k")
            ev["gate_on"] = k is not None
            ev["unchanged"] = bool(np.array_equal(x2, x) and np.array_equal(P2, P))
            if k is None:
                ev["gate"] = "off"
            if supported:
                key = c["key"]
                rnames = d["readings"][key]
                env = _env(d, c)
                h = np.array([[interp(d["sensors"][key][r], env)] for r in rnames])
                H = np.array([[interp(_named(_named(jac["H"])[key])[r][cc], env) for cc in S_names] for r in rnames]).reshape(len(rnames), len(S_names))
                Q = np.asarray(d["Q"][key], dtype=float)
                z = np.asarray(c["z"], dtype=float)
                S = H @ P @ H.T + Q
                cond = float(np.linalg.cond(S)) if S.size else 1.0
                if not np.isfinite(cond) or cond > 1e8:
                    raise ValueError("innovation covariance too ill-conditioned for the float oracle")
                Sinv = np.linalg.inv(S)
                y = z - h
                m = len(rnames)
                nis = float((y.T @ Sinv @ y).item())
                detail.update(nis=nis, cond=cond)
                if k is not None:
                    thr = k * math.sqrt(2 * m) + m
                    band = 1e-9 * cond * max(1.0, abs(thr), abs(nis))
                    ev["gate"] = "band" if abs(nis - thr) <= band else ("reject" if nis > thr else "accept")
                    detail["threshold"] = thr
                K = P @ H.T @ Sinv
                want_x = x + K @ y
                want_P = P - K @ H @ P
                sx = max(1.0, float(np.max(np.abs(x))), float(np.max(np.abs(K)) * np.max(np.abs(y))) if K.size and y.size else 1.0)
                sP = max(float(np.max(np.abs(P))), 1e-300)
                ok = _close(x2, want_x, 1e-10 * cond * sx * max(1, m)) and _close(P2, want_P, 1e-10 * cond * sP * max(1, m) * max(1, len(S_names)))
                detail["x_expected"], detail["P_expected"] = want_x.tolist(), want_P.tolist()
                if ev["unchanged"] and ev["gate"] in ("reject", "band"):
                    ev["match"] = "skip"          # a discarded update: nothing to compare
                else:
                    ev["match"] = "yes" if ok else "no"
    except (ZeroDivisionError, ValueError, OverflowError, KeyError, FloatingPointError) as e:
        detail["oracle_skipped"] = repr(e)[:120]
        ev["match"] = "skip"
    outs = [x2] + ([P2] if kind != "model" else [])
    if ev["match"] == "skip" and not all(np.all(np.isfinite(o)) for o in outs):
        # a non-finite result that the oracle cannot attribute (the point is outside the model's domain -- 1/x at 0 -- or the
        # definition is outside the tree language): the properties quantify over points where the model is defined; no claim
        ev["claim"] = False
        detail["no_claim"] = "non-finite output without an oracle verdict"
    return ev, detail


def failing_clause(ev):
    """name the clause of EKFCalls.tla a rejected event fails (verdicts are total: every rejected event gets exactly one name)."""
    k = ev["kind"]
    if ev["outcome"] == "refused":
        return "refused-valid" if k != "model" else "model-raised"
    if ev["outcome"] != "ok":
        return "raised" if k != "model" else "model-raised"
    if not ev["kept"]:
        return {"model": "model-inputs-modified", "predict": "predict-inputs-modified", "update": "update-inputs-modified"}[k]
    if k == "model":
        return "model-value"
    if k == "predict":
        return "invalid-output" if not ev["valid_out"] else "predict-value"
    # update
    if ev["unchanged"] and ev["gate"] in ("off", "accept") and ev["match"] == "no":
        return "gate-decision"            # returned untouched although the gate says accept (or is off)
    if not ev["unchanged"] and ev["gate"] == "reject":
        return "gate-decision"
    if not ev["valid_out"]:
        return "invalid-output"
    if ev["match"] == "no":
        return "update-value"
    return "discard-not-untouched"


# ---------------------------------------------------------------------------- run ----
def run(ctx, prop):
    """record, project, validate; report the violations that belong to `prop`.  -> coverage dict."""
    records, info = record(ctx)
    return analyse(ctx, prop, records, info)


def analyse(ctx, prop, records, info):
    defs, calls = {}, {}
    for r in records:
        if r["t"] in ("filter", "model"):
            defs[r["fid"]] = r["def"]
        elif r["t"] == "call":
            calls.setdefault(r["fid"], []).append(r)
        elif r["t"] == "recorder-error":
            ctx.notes.append("recorder: " + json.dumps(r)[:200])
    if not calls:
        raise RuntimeError("repository tests recorded no filter call: %s" % info)
    jacs, dres = derive({fid: d for fid, d in defs.items() if fid in calls})
    traces, keep = [], []
    nclaim = nmatch = 0
    kinds = {}
    for fid, cs in sorted(calls.items()):
        d = defs.get(fid)
        if d is None:
            continue
        evs, dets = [], []
        for c in cs:
            ev, det = project(d, jacs.get(fid), c)
            evs.append(ev)
            dets.append(det)
            nclaim += ev["claim"]
            nmatch += ev["claim"] and ev["match"] == "yes"
            kinds[ev["kind"]] = kinds.get(ev["kind"], 0) + 1
        traces.append(evs)
        keep.append((fid, cs, dets))
    # identical event sequences are validated once
    uniq, index = {}, []
    for t in traces:
        key = json.dumps(t, sort_keys=True)
        if key not in uniq:
            uniq[key] = len(uniq)
        index.append(uniq[key])
    ulist = [json.loads(k) for k in uniq]
    verdicts, tres = trace.validate("EKFCalls_Trace", ulist, cfg="CovGate_Trace.cfg", timeout=1800)
    nviol = 0
    others = {}
    for (fid, cs, dets), evs, ui in zip(keep, traces, index):
        v = verdicts[ui]
        # report every rejected event of the trace, not only the first: re-validate the rest event by event
        bad = []
        if v is not None:
            for i, ev in enumerate(evs):
                if ev["claim"] and not _event_ok(ev):
                    bad.append(i)
            if v not in bad:
                raise RuntimeError("EKFCalls_Trace rejected event %d of object %d but the clause analysis accepts it: %s" % (v, fid, evs[v]))
        for i in bad:
            clause = failing_clause(evs[i])
            owner = CLAUSE_PROP[clause]
            if owner != prop:
                others[owner] = others.get(owner, 0) + 1
                continue
            nviol += 1
            c = cs[i]
            ctx.violation("repo-tests:%s:%s" % (clause, c["test"].split("::")[-1][:60]),
                          "%s (%s call %d of object %d): %s; event %s %s" % (c["test"][:100], c["kind"], i, fid, clause, json.dumps(evs[i]), json.dumps(dets[i])[:300]),
                          {"definition": defs[fid], "call": c, "event": evs[i], "detail": dets[i], "clause": clause})
    if others:
        ctx.notes.append("repository-test events rejected for clauses owned by other properties (reported by their checks): %s" % json.dumps(others))
    end = [r for r in records if r["t"] == "end"]
    return dict(info, objects=len(traces), distinct_event_sequences=len(ulist), calls_recorded=sum(len(t) for t in traces), calls_with_claim=nclaim,
                calls_matched_against_derived_oracle=nmatch, calls_by_kind=kinds, calls_over_recording_budget=end[0]["skipped_over_budget"] if end else None,
                definitions_derived_by_tlc=len(jacs), derive_states=dres.distinct if dres else 0, trace_states=tres.distinct if tres else 0)


def _event_ok(ev):
    """the disjunction TModel \\/ TPredict \\/ TAccept \\/ TReject of EKFCalls_Trace.tla on one claimed event (used only to
    enumerate ALL rejected events of a trace TLC rejected, and cross-checked against TLC's own first rejection)."""
    if ev["outcome"] != "ok" or not ev["kept"]:
        return False
    m = ev["match"] in ("yes", "skip")
    if ev["kind"] == "model":
        return m
    if ev["kind"] == "predict":
        return ev["valid_out"] and m
    acc = ev["valid_out"] and ev["gate"] in ("off", "accept", "band", "skip") and m
    rej = ev["gate"] in ("reject", "band", "skip") and ev["gate_on"] and ev["unchanged"]
    return acc or rej
