------------------------------ MODULE GateCases ------------------------------
(***************************************************************************)
(* The editing gate of C06 on its own: for reading dimension m, threshold  *)
(* k, innovation y and (diagonal, positive) inverse innovation covariance, *)
(* the reading is discarded iff  y^T Sinv y > k sqrt(2m) + m, decided      *)
(* exactly (FilterMath!Gate).  Enumerates cases on both sides of and       *)
(* EXACTLY ON the boundary (m = 2, 8 make sqrt(2m) rational), where the    *)
(* strict comparison must KEEP the reading.                                *)
(***************************************************************************)
EXTENDS FilterMath, Json

CONSTANTS Ms, Ks, YVals, SDiag, EmitOn
VARIABLES m, k, y, s, done
vars == <<m, k, y, s, done>>

Init == m \in Ms /\ k \in Ks /\ y = <<>> /\ s = <<>> /\ done = FALSE

\* only the first three components vary; the others are zero (innovation) / one (Sinv diagonal)
Vary == IF m < 3 THEN m ELSE 3
ChooseY(v) == /\ ~done /\ Len(y) < Vary /\ v \in YVals /\ y' = Append(y, v) /\ UNCHANGED <<m, k, s, done>>
ChooseS(v) == /\ ~done /\ Len(y) = Vary /\ Len(s) < Vary /\ v \in SDiag /\ s' = Append(s, v) /\ UNCHANGED <<m, k, y, done>>

Yfull == [i \in 1..m |-> IF i <= Len(y) THEN y[i] ELSE Zero]
Sfull == [i \in 1..m |-> IF i <= Len(s) THEN s[i] ELSE One]
Nis == SumTo([i \in 1..m |-> RMul(RMul(Yfull[i], Sfull[i]), Yfull[i])], m)

Decide ==
  /\ ~done /\ Len(y) = Vary /\ Len(s) = Vary
  /\ ~IsBad(Nis) /\ ~GateBad(k, m, Nis)
  /\ done' = TRUE
  /\ (EmitOn => PrintT(ToJson([m |-> m, k |-> k, y |-> Yfull, sdiag |-> Sfull, nis |-> Nis,
                                discard |-> Gate(k, m, Nis), boundary |-> GateOnBoundary(k, m, Nis)])))
  /\ UNCHANGED <<m, k, y, s>>

Next == (\E v \in YVals : ChooseY(v)) \/ (\E v \in SDiag : ChooseS(v)) \/ Decide

\* on the boundary the reading is kept; with filtering disabled nothing is ever discarded
InvBoundaryKept == (Len(y) = Vary /\ Len(s) = Vary /\ ~IsBad(Nis) /\ ~GateBad(k, m, Nis) /\ GateOnBoundary(k, m, Nis)) => ~Gate(k, m, Nis)
InvDisabled == (Len(y) = Vary /\ Len(s) = Vary /\ ~IsBad(Nis)) => ~Gate(NoGate, m, Nis)
\* monotone: a larger normalised innovation is never kept when a smaller one is discarded (checked pointwise against nis + 1)
InvMonotone == (Len(y) = Vary /\ Len(s) = Vary /\ ~IsBad(Nis) /\ ~GateBad(k, m, Nis) /\ ~GateBad(k, m, RAdd(Nis, One)))
                  => (Gate(k, m, Nis) => Gate(k, m, RAdd(Nis, One)))
=============================================================================
