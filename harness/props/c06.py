"""C06 -- a reading is discarded iff NIS > k*sqrt(2m)+m; a discard changes nothing."""
import json

import cppcheck
import numeric
import scen


def _post(ctx, scns, results):
    """after the Python replay: the same behaviours in the generated C++ filter, then the helper / boundary agreement"""
    import cppcheck
    n = 10 if ctx.quick else 200
    # cover every editing threshold (it is rendered into the generated Config) with behaviours that contain a rejected update
    byk = {}
    for s_ in scns:
        if any(st.get("outcome") == "rejected" for st in s_["steps"]):
            byk.setdefault(json.dumps(s_["def"]["k"]), []).append(s_)
    # filtering DISABLED: behaviours whose accepted updates have a normalised innovation far above the reading count (they would
    # be discarded under any threshold, so a guard that is taken although filtering is off shows)
    from build import fl
    off = [s_ for s_ in scns if s_["def"]["k"][1] == 0 and
           any(st["act"] == "Update" and st.get("nis") and st["nis"][1] > 0 and fl(st["nis"]) > 4.0 * max(1, len(st["z"])) for st in s_["steps"])]
    pick = off[: (3 if ctx.quick else 30)]
    for r in range(3):
        for k_, lst in sorted(byk.items()):
            if r < len(lst) and len(pick) < n + 3:
                pick.append(lst[r])
    pick += [s_ for s_ in scns if s_ not in pick][: max(0, n - len(pick))]
    rc = cppcheck.replay_cpp(ctx, pick, cse_settings=(True,), kind="ekf")
    extra = cppcheck.record(ctx, rc, key_prefix="cpp:")
    extra.update(gate_agreement(ctx))
    extra.update(gate_through_filters(ctx))
    return extra


REPO_ASSUME = ("thorough tier: every model / filter call the repository's own test-suite executes is recorded (pytest plugin, /repo untouched), "
               "projected against the Jacobian trees Derive.tla derives from the recorded definition, and validated by EKFCalls_Trace.tla")


def run(ctx):
    return numeric.run_numeric(
        ctx, sim=("MC_EKF", "MC_C06_sim.cfg"), sim_num_quick=64, sim_num_thorough=2400, post=_post,
        rule="behaviour = definition + SetEstimate/Update sequence with editing threshold k in {None, 1/2, 1, 3, 5}; the spec decides "
             "the gate exactly ((nis-m)^2 > 2 m k^2, no square root) and a rejected update must leave state and covariance "
             "bit-identical while the innovation is still recorded",
        scope="simulation: 1-3 sensors of 1-3 readings, reading offsets on both sides of the boundary",
        assumptions=numeric.BASE_ASSUME + [REPO_ASSUME], repo_tests=True)


def replay(ctx, path):
    return numeric.replay_file(ctx, path)


# ---------------------------------------------------------------- gate cases through whole filters ----
def _case_scenarios(cases):
    """GateCases.tla cases (k, m, y, diagonal S^-1 in {1, 1/2}) as behaviours of an m-state identity model with an m-reading
    identity sensor: P = Q = S/2 (so S = H P H^T + Q exactly, in floating point too), estimate 0, reading y.  The innovation is
    y, the normalised innovation exactly the case's, an accepted update gives x = y/2, P = S/4, a discarded one gives back x = 0, P = S/2."""
    from fractions import Fraction
    groups = {}
    for c in cases:
        groups.setdefault((c["m"], json.dumps(c["k"]), json.dumps(c["sdiag"])), []).append(c)
    scns = []
    for (m, kj, sj), cs in sorted(groups.items()):
        names = ["x%02d" % i for i in range(m)]
        rds = ["r%02d" % i for i in range(m)]
        S = [1 / Fraction(q[0], q[1]) for q in cs[0]["sdiag"]]

        def rat(f):
            f = Fraction(f)
            return [f.numerator, f.denominator]
        d = {"state": names, "control": [], "calib": [], "update": {n: {"op": "sym", "name": n} for n in names}, "calmap": {}, "pnoise": {},
             "sensors": {"s1": {r: {"op": "sym", "name": n} for r, n in zip(rds, names)}},
             "snoise": {"s1": {r: rat(S[i] / 2) for i, r in enumerate(rds)}}, "k": json.loads(kj)}
        P0 = {r: {c: rat(S[i] / 2 if i == j else 0) for j, c in enumerate(names)} for i, r in enumerate(names)}
        x0 = {n: [0, 1] for n in names}
        steps = []
        for c in cs:
            y = [Fraction(q[0], q[1]) for q in c["y"]]
            steps.append({"act": "SetEstimate", "x": x0, "P": P0})
            if c["discard"]:
                x1, P1, outcome = x0, P0, "rejected"
            else:
                x1 = {n: rat(y[i] / 2) for i, n in enumerate(names)}
                P1 = {r: {cc: rat(S[i] / 4 if i == j else 0) for j, cc in enumerate(names)} for i, r in enumerate(names)}
                outcome = "accepted"
            steps.append({"act": "Update", "key": "s1", "z": {r: rat(y[i]) for i, r in enumerate(rds)}, "outcome": outcome, "x": x1, "P": P1,
                          "innov": {r: rat(y[i]) for i, r in enumerate(rds)}, "_boundary": bool(c["boundary"])})
        scns.append({"_id": "gatecase:%d:%s:%s" % (m, kj, sj), "def": d, "steps": steps,
                     "layout": {"state": names, "control": [], "calib": [], "sensors": ["s1"], "readings": {"s1": rds}}})
    return scns


def gate_through_filters(ctx):
    """(e) the exact cases of GateCases.tla -- all boundary cases and their neighbours -- through python sensor_model and the
    GENERATED C++ sensor update (its own guard, not only the helper it normally calls)"""
    import tlc
    r = tlc.run("MC_GateCases", cfg=("MC_GateCases_q.cfg" if ctx.quick else "MC_GateCases.cfg"), workers=ctx.cores, timeout=900)
    if r.violation:
        return {}
    per_group = 6 if ctx.quick else 40
    pick, seen = [], {}
    for c in r.printed:
        if c["m"] not in (2, 8):
            continue
        g = (c["m"], json.dumps(c["k"]), json.dumps(c["sdiag"]))
        if c["boundary"] or seen.get(g, 0) < per_group:
            seen[g] = seen.get(g, 0) + (0 if c["boundary"] else 1)
            pick.append(c)
    scns = _case_scenarios(pick)
    if ctx.quick:      # all m = 2 groups, two m = 8 groups
        scns = [s for s in scns if s["_id"].startswith("gatecase:2:")] + [s for s in scns if s["_id"].startswith("gatecase:8:")][:2]
    res = scen.replay_all(ctx, scns, cse_settings=(True,), force_ekf=True, presentation={"container": "set"})
    c_py = scen.record_results(ctx, res, key_prefix="gatecase:py:")
    rc = cppcheck.replay_cpp(ctx, scns, cse_settings=(True,), kind="ekf", presentation={"container": "set"})
    c_cpp = cppcheck.record(ctx, rc, key_prefix="gatecase:cpp:")
    nb = sum(1 for s in scns for st in s["steps"] if st.get("_boundary"))
    return {"gate_cases_through_filters": {"filters": len(scns), "updates": sum(len(s["steps"]) // 2 for s in scns), "exact_boundary_updates": nb,
                                           "python": c_py, "cpp": c_cpp}}


# ---------------------------------------------------------------- gate agreement (helper, boundary) ----
def _py_decisions(mods, cases):
    """python: ExtendedKalmanFilter.remove_innovation on a tiny real filter configured with threshold k"""
    import numpy as np
    ui, python = mods["ui"], mods["python"]
    x, dt = ui.Symbol("x"), ui.Symbol("dt")
    model = ui.Model(dt=dt, state={x}, control=set(), state_model={x: x})
    cache = {}
    out = []
    for c in cases:
        k = c["k"]
        if k not in cache:
            cache[k] = python.compile_ekf(model, {}, {"s": {"r": x}}, {"s": {"r": 1.0}}, config={"innovation_filtering": k, "common_subexpression_elimination": False})
        y = np.array(c["y"], dtype=float).reshape((len(c["y"]), 1))
        S = np.array(c["sinv"], dtype=float).reshape((len(c["y"]), len(c["y"])))
        try:
            out.append(bool(cache[k].remove_innovation(y, S)))
        except Exception as e:
            out.append("exception:" + type(e).__name__)
    return out


def _cpp_decisions(ctx, cases):
    import os
    import cppbuild
    exe = os.path.join(ctx.work, "gate_driver")
    ok, err = cppbuild.compile_one({"sources": ["/verif/cxx/gate_driver.cpp"], "out": exe})
    if not ok:
        return None, err
    lines = []
    for c in cases:
        vals = [float(c["k"]).hex()] + [float(v).hex() for v in c["y"]] + [float(v).hex() for v in c["sinv"]]
        lines.append("%d %s" % (len(c["y"]), " ".join(vals)))
    rc, so, se = cppbuild.run_exe(exe, "\n".join(lines) + "\n", timeout=300)
    if rc != 0:
        raise RuntimeError("gate driver exit %d %s" % (rc, se[-300:]))
    out = {}
    for line in so.splitlines():
        t = line.split()
        if t and t[0] == "D":
            out[int(t[1])] = bool(int(t[2]))
    return [out.get(i + 1) for i in range(len(cases))], None


def gate_agreement(ctx):
    """(c) exact cases incl. the boundary from GateCases.tla; (d) +-8 ulp band for m = 1 validated by Gate_Trace.tla"""
    import math
    import random
    from fractions import Fraction
    import tlc
    import trace
    import workers
    from build import fl
    r = tlc.run("MC_GateCases", cfg=("MC_GateCases_q.cfg" if ctx.quick else "MC_GateCases.cfg"), workers=ctx.cores, timeout=900)
    if r.violation:
        ctx.violation("spec-invariant", r.violation[:600], {})
    cases = []
    for s in r.printed:
        m = s["m"]
        sinv = [0.0] * (m * m)
        for i in range(m):
            sinv[i * m + i] = fl(s["sdiag"][i])
        cases.append({"k": fl(s["k"]), "y": [fl(q) for q in s["y"]], "sinv": sinv, "discard": bool(s["discard"]), "boundary": bool(s["boundary"]), "spec": s})
    # python in the pool, c++ in one process
    chunks = [cases[i::ctx.cores] for i in range(ctx.cores)]
    chunks = [c for c in chunks if c]
    res = workers.run_tasks([("props.c06", "_py_decisions", ([{k: v for k, v in c.items() if k != "spec"} for c in ch],), 600) for ch in chunks], procs=ctx.cores)
    py = {}
    for ch, (status, out) in zip(chunks, res):
        if status != "ok":
            raise RuntimeError(out)
        for c, o in zip(ch, out):
            py[id(c)] = o
    cpp, err = _cpp_decisions(ctx, cases)
    if cpp is None:
        ctx.violation("cpp-helper:build-failed", err[-600:], {})
        cpp = [None] * len(cases)
    nb = 0
    for c, dc in zip(cases, cpp):
        nb += 1 if c["boundary"] else 0
        dp = py[id(c)]
        tag = "boundary" if c["boundary"] else "m=%d" % len(c["y"])
        if dp != c["discard"]:
            ctx.violation("gate:python:%s" % tag, "m=%d k=%s nis=%s: spec says %s, python remove_innovation says %s" %
                          (len(c["y"]), c["k"], c["spec"]["nis"], c["discard"], dp), {"case": c["spec"], "python": dp, "cpp": dc})
        if dc is not None and dc != c["discard"]:
            ctx.violation("gate:cpp-helper:%s" % tag, "m=%d k=%s nis=%s: spec says %s, removeInnovation says %s" %
                          (len(c["y"]), c["k"], c["spec"]["nis"], c["discard"], dc), {"case": c["spec"], "python": dp, "cpp": dc})
    # (d) ulp band: the normalised innovation is placed EXACTLY on the floating-point threshold fl(k*sqrt(2m)+m) and a few ulps
    #     around it, for m = 1, 2, 3, 5, 7.  y = e_1 and Sinv[0][0] = nis make every implementation compute exactly `nis`.
    rnd = random.Random(ctx.seed)
    band = []
    for _ in range(300 if ctx.quick else 5000):
        k = rnd.choice([0.5, 1.0, 2.0, 2.5, 3.0, 4.0, 5.0, 7.25, 0.1, 0.7, 1.0 / 3.0, 2.7, 4.9])      # incl. thresholds that are not exact in single precision
        m = rnd.choice([1, 2, 3, 5, 7])
        thr = k * math.sqrt(2.0 * m) + m
        nis = thr
        steps = rnd.randint(-6, 6)
        for _i in range(abs(steps)):
            nis = math.nextafter(nis, math.inf if steps > 0 else -math.inf)
        # exact real-number verdict: nis - m > k sqrt(2m)  <=>  e > 0 and e^2 > 2 m k^2
        def verdict(v):
            e = Fraction(v) - m
            return e > 0 and e * e > 2 * m * Fraction(k) ** 2
        real = verdict(nis)
        dist = 40
        vv = nis
        for dd in range(1, 40):
            vv = math.nextafter(vv, -math.inf if real else math.inf)
            if verdict(vv) != real:
                dist = dd
                break
        y = [1.0] + [0.0] * (m - 1)
        sinv = [0.0] * (m * m)
        for i in range(m):
            sinv[i * m + i] = 1.0
        sinv[0] = nis
        band.append({"k": k, "y": y, "sinv": sinv, "real": real, "dist_ulps": dist if real else -dist, "m": m, "nis": nis})
    res = workers.run_tasks([("props.c06", "_py_decisions", (band,), 600)], procs=1)
    pyb = res[0][1]
    cppb, err = _cpp_decisions(ctx, band)
    traces = [[{"dist_ulps": b["dist_ulps"], "real": b["real"], "decisions": [p, c]}] for b, p, c in zip(band, pyb, cppb or [None] * len(band)) if c is not None and isinstance(p, bool)]
    verdicts, tres = trace.validate("Gate_Trace", traces)
    for b, t, v in zip(band, traces, verdicts):
        if v is not None:
            ctx.violation("gate:ulp-band", "m=%d k=%s nis=%r (%d ulps from the boundary, real verdict %s): decisions python=%s c++=%s" %
                          (b["m"], b["k"], b["nis"], b["dist_ulps"], b["real"], t[0]["decisions"][0], t[0]["decisions"][1]), {"event": t[0], "case": b})
    inband = sum(1 for b in band if abs(b["dist_ulps"]) <= 2)
    return {"gate_cases": len(cases), "gate_boundary_cases": nb, "ulp_band_events": len(traces), "ulp_events_inside_band": inband,
            "gate_states": r.distinct}
