------------------------------ MODULE Workflow ------------------------------
(***************************************************************************)
(* The design workflow (ui_state_machine.py): a state machine whose states *)
(* are identified by ids, whose moves are the DECLARED transitions, which  *)
(* records the ids visited, and whose `search` returns a shortest list of  *)
(* transition names to a requested id.                                     *)
(*                                                                         *)
(* The transition relation is a variable chosen at Init from ALL relations *)
(* over the ids (the real workflow's relation is `RealEdges`), so that the *)
(* search theorems are checked -- and replayed into the real `search` --   *)
(* for every digraph on the id set, not only the real one.                 *)
(* An edge <<a, b>> is the transition named "t_a_b" from a to b.           *)
(***************************************************************************)
EXTENDS Integers, Sequences, FiniteSets, TLC, Json

CONSTANTS Ids,        \* the state ids (e.g. {1, 2, 3} for Start, Symbolic_Model, Fit_Model)
          Start,      \* id of the start state
          RealOnly,   \* TRUE: only the real workflow's relation
          RealEdges,  \* the declared relation of the real workflow
          MaxMoves, EmitOn

VARIABLES edges, cur, history, done
vars == <<edges, cur, history, done>>

Succ(E, a) == {e[2] : e \in {x \in E : x[1] = a}}

\* nodes at distance exactly k (BFS layers)
RECURSIVE Layer(_, _, _, _)
Layer(E, from, k, seen) ==
  IF k = 0 THEN {from}
  ELSE LET prev == Layer(E, from, k - 1, seen) IN UNION {Succ(E, a) : a \in prev}

\* shortest distance from a to b, or -1 if unreachable
RECURSIVE DistUpTo(_, _, _, _, _)
DistUpTo(E, a, b, k, reached) ==
  IF b \in reached THEN k
  ELSE LET nxt == reached \cup UNION {Succ(E, x) : x \in reached} IN
       IF nxt = reached THEN -1 ELSE DistUpTo(E, a, b, k + 1, nxt)
Dist(E, a, b) == DistUpTo(E, a, b, 0, {a})

\* is `path` (a sequence of ids starting at a) a walk of E
IsWalk(E, path) == \A i \in 1..(Len(path) - 1) : <<path[i], path[i + 1]>> \in E

\* search theorems (checked for the chosen relation)
SearchTheorem(E) ==
  \A a \in Ids : \A b \in Ids :
     LET d == Dist(E, a, b) IN
     /\ (d = -1) <=> ~(\E n \in 0..Cardinality(Ids) : b \in Layer(E, a, n, {}))
     /\ (d >= 0) => /\ b \in Layer(E, a, d, {})
                    /\ \A n \in 0..(d - 1) : b \notin Layer(E, a, n, {})
     /\ (a = b) => d = 0

Init ==
  /\ edges \in (IF RealOnly THEN {RealEdges} ELSE SUBSET (Ids \X Ids))
  /\ cur = Start /\ history = <<Start>> /\ done = FALSE

\* the workflow only moves along declared transitions and records the ids visited, in order
Move(b) ==
  /\ ~done /\ Len(history) <= MaxMoves
  /\ <<cur, b>> \in edges
  /\ cur' = b /\ history' = Append(history, b)
  /\ UNCHANGED <<edges, done>>

DistTable(E) == [a \in Ids |-> [b \in Ids |-> Dist(E, a, b)]]

Emit ==
  /\ ~done /\ EmitOn
  /\ PrintT(ToJson([edges |-> edges, history |-> history, dist |-> DistTable(edges)]))
  /\ done' = TRUE /\ UNCHANGED <<edges, cur, history>>

Next == (\E b \in Ids : Move(b)) \/ Emit

InvHistoryIsWalk == history[1] = Start /\ IsWalk(edges, history) /\ history[Len(history)] = cur
InvSearch == SearchTheorem(edges)
ActHistoryGrows == [][history' = history \/ (Len(history') = Len(history) + 1 /\ SubSeq(history', 1, Len(history)) = history)]_vars

(***************************************************************************)
(* Hyper-parameter fitting (FitModel): refused iff fewer than 3 samples;   *)
(* the selected hyper-parameters come from the grid; the exported filter   *)
(* carries exactly the selected ones (others default).                     *)
(***************************************************************************)
MinSamples == 3
\* (the property does not promise that the optimiser converges: the library's own minimisation error is a legitimate outcome of a
\* fit on enough data -- C17 -- and then nothing is selected or exported)
FitOutcomeOK(nsamples, grid, outcome, selected, exported, defaults) ==
  IF nsamples < MinSamples THEN outcome = "refused"
  ELSE \/ outcome = "minimization-failure"
       \/ /\ outcome = "fitted"
          /\ \A k \in DOMAIN grid : selected[k] \in grid[k]
          /\ \A k \in DOMAIN exported : exported[k] = (IF k \in DOMAIN grid THEN selected[k] ELSE defaults[k])
=============================================================================
