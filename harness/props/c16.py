"""C16 -- the scikit-learn adapter's transform / mahalanobis / score are the filter's NIS."""
import copy
import json
import math
import traceback

import numeric
import scen
import workers
from build import Definition, make_ui_model, ekf_args, named, fl, interp
from common import finish

LEVEL = "model_checking"
ASSUME = numeric.BASE_ASSUME + [
    "TransformRow (Formak.tla) is the plan: predict with the adapter's fixed step 1/10 and the row's controls, then update the sensors in key order",
    "the inner filter is observed through a recording proxy around the real compile_ekf result; score's square roots come from the reference "
    "interpreter applied to the spec's formula tree"]


class Proxy:
    """Recording proxy around the real ExtendedKalmanFilter the adapter compiles."""

    def __init__(self, real, log):
        object.__setattr__(self, "_real", real)
        object.__setattr__(self, "_log", log)

    def __getattr__(self, name):
        return getattr(self._real, name)

    def process_model(self, dt, state, covariance, control=None):
        names = [str(s) for s in self._real.Control._arglist]
        u = {} if control is None else {n: float(control.data[i, 0]) for i, n in enumerate(names)}
        self._log.append(("P", float(dt), u))
        return self._real.process_model(dt, state, covariance, control)

    def sensor_model(self, state, covariance, *, sensor_key, sensor_reading):
        rn = [str(r) for r in self._real.sensor_models[sensor_key].readings]
        z = {n: float(sensor_reading.data[i, 0]) for i, n in enumerate(rn)}
        self._log.append(("S", sensor_key, z))
        return self._real.sensor_model(state, covariance, sensor_key=sensor_key, sensor_reading=sensor_reading)


def replay(mods, scn, cse=None):
    """worker task -> dict(mismatches=[...], values=int); also the --replay entry (ctx, path)"""
    if hasattr(mods, "prop"):
        return replay_file_(mods, scn)
    import numpy as np
    ui, python = mods["ui"], mods["python"]
    d = Definition(scn["def"])
    rows = [st for st in scn["steps"] if st["act"] == "TransformRow"]
    mism = []
    n = 0

    def bad(what, **kw):
        mism.append(dict(what=what, **kw))

    try:
        import json as _json
        from build import resolve_presentation
        pres = resolve_presentation("random:c16:" + _json.dumps(scn["def"]["state"]) + str(cse), d)
        model, symtab = make_ui_model(d, ui, container=pres["container"], order=pres["order"], proactive_simplify=pres.get("proactive_simplify", False))
        pn, sm, sn, cm = ekf_args(d, symtab, order=pres["order"], variety=pres["variety"])
        # the adapter's step is fixed (1/10 s) whatever the configured maximum step of the managed runtime is
        cfg = python.Config(common_subexpression_elimination=bool(cse), innovation_filtering=d.gate(),
                            max_dt_sec=[0.1, 0.05, 0.5, 0.02][len(_json.dumps(scn["def"]["state"])) % 4])
        adapter = python.SklearnEKFAdapter.Create(model, pn, sm, sn, cm, config=cfg)
        # data matrix in the documented layout: [controls..., readings of each sensor in key order...]
        X = []
        for st in rows:
            row = [fl(named(st["u"])[c]) for c in st["ctlorder"]]
            for key in st["keyorder"]:
                row += [fl(st["z"][key][r]) for r in st["rorder"][key]]
            X.append(row)
        X = np.array(X, dtype=float)
        params_before = adapter.get_params()
        snap = copy.deepcopy({k: v for k, v in params_before.items() if k not in ("symbolic_model", "sensor_models")})
        log = []
        real_compile = python.compile_ekf

        def recording_compile(*a, **kw):
            return Proxy(real_compile(*a, **kw), log)
        python.compile_ekf = recording_compile
        try:
            T1 = adapter.transform(X)
        finally:
            python.compile_ekf = real_compile
        T1 = np.array(T1, dtype=float)
        # (1) NIS values against the spec, by (row, sensor key)
        keyorder = rows[0]["keyorder"]
        if T1.shape != (len(rows), len(keyorder)):
            bad("shape", expected=[len(rows), len(keyorder)], observed=list(T1.shape))
            return {"mismatches": mism, "values": n}
        for i, st in enumerate(rows):
            for j, key in enumerate(keyorder):
                e = fl(st["nis"][key])
                n += 1
                if not (abs(T1[i, j] - e) <= 1e-9 * max(1.0, abs(e))):
                    bad("nis", row=i, key=key, expected=e, observed=float(T1[i, j]))
                if T1[i, j] < 0:
                    bad("negative-nis", row=i, key=key, observed=float(T1[i, j]))
        # (2) the recorded call sequence against the plan: which columns went to which control / reading BY NAME
        exp_calls = []
        for st in rows:
            exp_calls.append(("P", 0.1, {c: fl(q) for c, q in named(st["u"]).items()}))
            for key in st["keyorder"]:
                exp_calls.append(("S", key, {r: fl(q) for r, q in st["z"][key].items()}))
        if log != exp_calls:
            k = next((i for i, (a, b) in enumerate(zip(log, exp_calls)) if a != b), min(len(log), len(exp_calls)))
            bad("call-sequence", index=k, expected=exp_calls[k] if k < len(exp_calls) else None, observed=log[k] if k < len(log) else None)
        # (3) squared-Mahalanobis output = the same numbers flattened
        M = np.array(adapter.mahalanobis(X), dtype=float)
        n += 1
        if M.shape != (T1.size,) or not np.array_equal(M, T1.flatten()):
            bad("mahalanobis", expected=T1.flatten().tolist(), observed=M.tolist())
        # (4) score = documented combination (spec's formula tree)
        total = sum(fl(st["nis"][k]) for st in rows for k in keyorder)
        if scn.get("score") and total > 1e-12:
            e = interp(scn["score"], {})
            sc = float(adapter.score(X))
            n += 1
            if not (abs(sc - e) <= 1e-9 * max(1.0, abs(e))):
                bad("score", expected=e, observed=sc)
            # the documented options of score: explained form is the same combination; unit sample weights change nothing
            full, parts = adapter.score(X, explain_score=True)
            bw, bias, vw, var, mw, size = [float(v) for v in parts]
            if not (abs(float(full) - sc) <= 1e-12 * max(1.0, abs(sc)) and abs(bw * bias + vw * var + mw * size - sc) <= 1e-9 * max(1.0, abs(sc))):
                bad("score-explained", expected=sc, observed=[float(full), bw * bias + vw * var + mw * size])
            scw = float(adapter.score(X, sample_weight=np.ones(T1.size)))
            if not (abs(scw - sc) <= 1e-9 * max(1.0, abs(sc))):
                bad("score-unit-weights", expected=sc, observed=scw)
            # the caller's arrays belong to the caller: a weight vector handed in twice gives the same score twice and is not
            # written to; neither is the data matrix
            w = np.linspace(0.5, 1.5, T1.size)
            w0, X0 = w.copy(), X.copy()
            s1 = float(adapter.score(X, sample_weight=w))
            s2 = float(adapter.score(X, sample_weight=w))
            if not np.array_equal(w, w0):
                bad("score-modified-sample-weight", expected=w0.tolist(), observed=w.tolist())
            if s1 != s2:
                bad("score-not-repeatable-with-weights", expected=s1, observed=s2)
            if not np.array_equal(X, X0):
                bad("data-matrix-modified", expected=X0.tolist(), observed=X.tolist())
        # (5) by hand on the exported filter, in the plan's order
        plan0 = [({c: fl(q) for c, q in named(st["u"]).items()}, {key: {r: fl(q) for r, q in st["z"][key].items()} for key in st["keyorder"]}) for st in rows]

        def by_hand(ekf, T, label, plan=None):
            nn = 0
            state, cov = ekf.State(), ekf.Covariance()
            for i, (u_, z_) in enumerate(plan or plan0):
                ctl = ekf.Control(**u_)
                state, cov = ekf.process_model(0.1, state, cov, ctl)
                for j, key in enumerate(keyorder):
                    rd = ekf.make_reading(key, **z_[key])
                    state, cov = ekf.sensor_model(state, cov, sensor_key=key, sensor_reading=rd)
                    y = ekf.innovations[key]
                    S = ekf.sensor_prediction_uncertainty[key]
                    hand = float((y.T @ np.linalg.inv(S) @ y).item())
                    nn += 1
                    if not (abs(hand - T[i, j]) <= 1e-12 * max(1.0, abs(hand))):
                        bad(label, row=i, key=key, expected=hand, observed=float(T[i, j]))
            return nn
        n += by_hand(adapter.export_python(), T1, "by-hand")
        # (6) parameters unchanged; (7) repeatable
        after = adapter.get_params()
        for k in params_before:
            if after[k] is not params_before[k]:
                bad("params-replaced", name=k)
        snap2 = {k: v for k, v in after.items() if k not in ("symbolic_model", "sensor_models")}
        if repr(snap) != repr(snap2):
            bad("params-mutated", expected=repr(snap)[:300], observed=repr(snap2)[:300])
        T2 = np.array(adapter.transform(X), dtype=float)
        if not np.array_equal(T1, T2):
            bad("not-repeatable", expected=T1.tolist(), observed=T2.tolist())
        # (8) history: a configuration field changed between two transforms must take effect -- the second transform is again
        #     the NIS of the (newly) exported filter run by hand (no stale compiled filter)
        for other in ([None, 0.75] if d.gate() is not None else [0.5, 3.0]):
            adapter.set_params(innovation_filtering=other)
            T3 = np.array(adapter.transform(X), dtype=float)
            n += by_hand(adapter.export_python(), T3, "by-hand-after-set_params(innovation_filtering=%s)" % other)
        # (9) a quiet log: readings within 1e-5 .. 1e-3 of what the filter predicts (normalised innovations of 1e-10 .. 1e-6, as
        #     a well-tuned filter on good data produces).  The specification says transform, mahalanobis and the filter's own
        #     NIS are ONE quantity whatever its magnitude; the exact window cannot hold such values, so the reference is the
        #     exported filter folded by hand, as in (5)
        adapter.set_params(innovation_filtering=d.gate())
        ekf = adapter.export_python()
        state, cov = ekf.State(), ekf.Covariance()
        plan, X2 = [], []
        for i, (u_, _) in enumerate(plan0):
            state, cov = ekf.process_model(0.1, state, cov, ekf.Control(**u_))
            zrow = {}
            for j, key in enumerate(keyorder):
                pred = ekf.sensor_models[key].model(state)
                names_ = [str(r) for r in ekf.sensor_models[key].readings]
                zrow[key] = {r: float(pred.data[t, 0]) + (10.0 ** -(5 - (i + j + t) % 3)) * (1 if (i + t) % 2 == 0 else -1) for t, r in enumerate(names_)}
                state, cov = ekf.sensor_model(state, cov, sensor_key=key, sensor_reading=ekf.make_reading(key, **zrow[key]))
            plan.append((u_, zrow))
            X2.append([u_[c] for c in rows[0]["ctlorder"]] + [zrow[key][r] for key in keyorder for r in rows[0]["rorder"][key]])
        X2 = np.array(X2, dtype=float)
        if np.all(np.isfinite(X2)):
            T4 = np.array(adapter.transform(X2), dtype=float)
            M4 = np.array(adapter.mahalanobis(X2), dtype=float)
            n += by_hand(adapter.export_python(), T4, "by-hand-quiet-log", plan)
            n += 1
            if M4.shape != (T4.size,) or not np.array_equal(M4, T4.flatten()):
                bad("mahalanobis-quiet-log", expected=T4.flatten().tolist(), observed=M4.tolist())
    except Exception as e:
        bad("exception", observed=repr(e)[:400], tb=traceback.format_exc()[-1500:])
    return {"mismatches": mism, "values": n}


def run(ctx):
    quick = ctx.quick
    scns, stats = scen.generate(ctx, None, ("MC_EKF", "MC_C16_sim.cfg"), sim_num=(96 if quick else 2400), sim_depth=90)
    if scns is None:
        ctx.violation("spec-invariant", stats["tlc_violation"][:800], stats)
        return finish(ctx, LEVEL, {"states": 1, "transitions": 1, "traces_validated_against_impl": 0, "samples": [stats]}, ASSUME)
    scns = [s for s in scns if any(st["act"] == "TransformRow" for st in s["steps"])]
    tasks, idx = [], []
    for s in scns:
        clean = {k: v for k, v in s.items() if not k.startswith("_")}
        for cse in ((False,) if quick else (False, True)):
            tasks.append(("props.c16", "replay", (clean, cse), 180))
            idx.append((s, cse))
    ctx.log("replaying %d data matrices into SklearnEKFAdapter" % len(tasks))
    res = workers.run_tasks(tasks, procs=ctx.cores)
    nval = ok = 0
    for (s, cse), (status, r) in zip(idx, res):
        if status != "ok":
            ctx.dropped += 1
            ctx.notes.append(str(r)[-200:])
            continue
        nval += r["values"]
        if r["mismatches"]:
            m = r["mismatches"][0]
            key = m["what"] + (":" + str(m.get("observed", "")).split("(")[0] if m["what"] == "exception" else "")
            ctx.violation(key, "cse=%s %s" % (cse, json.dumps({k: v for k, v in m.items() if k != "tb"}, default=str)[:400]),
                          {"scenario": {k: v for k, v in s.items() if not k.startswith("_")}, "cse": cse, "mismatches": r["mismatches"][:8]})
        else:
            ok += 1
    defs = {}
    for s in scns:
        d = Definition(s["def"])
        defs[d.canonical()] = d.nontrivial()
    cov = {"states": stats["states"], "transitions": stats["transitions"], "traces_validated_against_impl": len(scns),
           "samples": [scen.summarise(s) for s in scns[:2]], "programs": len(defs), "distinct_nontrivial": sum(1 for v in defs.values() if v),
           "evaluations": nval, "replays_ok": ok,
           "rule": "case = definition with >= 1 sensor + data matrix of 2-3 rows; NIS per (row, sensor), call sequence by name, mahalanobis, "
                   "score, by-hand fold on the exported filter, parameter frame condition and repeatability are all checked",
           "tlc_runs": stats["tlc_runs"]}
    return finish(ctx, LEVEL, cov, ASSUME)


def replay_file_(ctx, path):
    body = json.load(open(path))
    res = workers.run_tasks([("props.c16", "replay", (body["payload"]["scenario"], body["payload"].get("cse", False)), 300)], procs=1)
    print(json.dumps(res[0][1], indent=1, default=str)[:2000])
    return 1 if res[0][1]["mismatches"] else 0
