---------------------------- MODULE CovGate_Trace ----------------------------
(* a trace is a history of one filter: events [kind, outcome in {"ok","refused"}, valid_in, valid_out] *)
EXTENDS CovGate, IOUtils, TLCExt
Traces == JsonDeserialize(IOEnv.TRACE_FILE)
VARIABLES tid, l
ASSUME \A t \in 1..Len(Traces) : TLCSet(t, 0)
Ev == Traces[tid][l]
TInit == tid \in 1..Len(Traces) /\ l = 1 /\ Init
\* a step on a valid covariance (strict measure) is never refused and yields a valid covariance (measure relative to the
\* magnitudes involved); a step whose input is already outside the strict measure carries no claim
TStep == /\ l <= Len(Traces[tid])
         /\ Ev.valid_in
         /\ Ev.outcome = "ok" /\ Ev.valid_out = TRUE
         /\ Step(Ev.kind)
         /\ l' = l + 1 /\ UNCHANGED tid
TNoClaim == /\ l <= Len(Traces[tid]) /\ ~Ev.valid_in /\ Ev.outcome # "exception"
            /\ l' = l + 1 /\ UNCHANGED <<tid, valid, steps>>
TNext == TStep \/ TNoClaim
Reach == TLCSet(tid, IF TLCGet(tid) < l THEN l ELSE TLCGet(tid))
Post == \A t \in 1..Len(Traces) :
          IF TLCGet(t) = Len(Traces[t]) + 1 THEN PrintT(<<"ACCEPT", t>>)
          ELSE PrintT(<<"REJECT", t, TLCGet(t)>>)
=============================================================================
