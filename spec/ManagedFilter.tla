---------------------------- MODULE ManagedFilter ----------------------------
(***************************************************************************)
(* The managed-filter runtime (py/formak/runtime.py, ManagedFilter.h).     *)
(*                                                                         *)
(* The wrapped filter is abstracted as the FREE MONOID OF CALLS: an        *)
(* estimate *is* the sequence of operations applied to the initial         *)
(* estimate,  <<"P", dt>>  (prediction step of signed length dt) and       *)
(* <<"S", key, id>>  (sensor update with reading `id` of sensor `key`).    *)
(* A prediction step also carries the control it was given: <<"P", dt, c>> *)
(* with c = number of the tick whose control was used (0: no control).     *)
(* Any concrete filter is a homomorphic image of this, so "same call       *)
(* sequence" implies "same result for every filter", and the order, count, *)
(* size and sign of every step is visible.                                 *)
(*                                                                         *)
(* Time is an integer grid (the replay harness maps one unit to 2^-10 s,   *)
(* so all floating-point time arithmetic of the implementations is exact). *)
(***************************************************************************)
EXTENDS Integers, Sequences, FiniteSets, TLC, Json

CONSTANTS
  Times,       \* set of integer time points
  MaxDts,      \* set of configured maximum steps (positive integers)
  Keys,        \* sensor keys
  MaxTicks, MaxReadings,
  MinTicks,    \* Emit is enabled once this many ticks happened
  EmitOn       \* BOOLEAN: print behaviours for the replay harness

VARIABLES
  max,         \* configured maximum step of this filter
  t0,          \* time of the initial estimate
  hasControl,  \* does the wrapped filter declare control inputs
  held,        \* [t |-> held time, hist |-> held estimate (call sequence)]
  ghost,       \* the same run with every reading-less tick dropped (theorem C11b)
  nr,          \* readings consumed so far (gives every reading a unique id)
  pend,        \* readings collected for the next tick (the caller builds the list, one at a time)
  log,         \* history of ticks: args + returned estimate + held state (observation only)
  last,        \* arguments/result of the last call (observation only)
  done

vars == <<max, t0, hasControl, held, ghost, nr, pend, log, last, done>>

AbsI(x) == IF x < 0 THEN -x ELSE x
Sgn(x)  == IF x < 0 THEN -1 ELSE IF x > 0 THEN 1 ELSE 0

(***************************************************************************)
(* The exact plan for moving from `from` to `to` with maximum step m:      *)
(* floor(|d|/m) full steps of sign(d)*m, then the remainder if non-zero.   *)
(***************************************************************************)
PlanC(from, to, m, c) ==
  LET d == to - from
      n == AbsI(d) \div m
      r == d - Sgn(d) * n * m
  IN [i \in 1..n |-> <<"P", Sgn(d) * m, c>>] \o (IF r # 0 THEN << <<"P", r, c>> >> ELSE <<>>)
Plan(from, to, m) == PlanC(from, to, m, 0)

RECURSIVE SumSteps(_)
SumSteps(s) == IF s = <<>> THEN 0 ELSE Head(s)[2] + SumSteps(Tail(s))

\* C10 for the plan: direction, bound, sum, emptiness -- checked at start-up over the whole grid
PlanOKExact(from, to, m) ==
  LET p == Plan(from, to, m) IN
  /\ \A i \in DOMAIN p : Sgn(p[i][2]) = Sgn(to - from) /\ AbsI(p[i][2]) <= m /\ p[i][2] # 0
  /\ SumSteps(p) = to - from
  /\ (p = <<>>) <=> (from = to)
  \* no more steps than necessary: all but the last are full steps
  /\ \A i \in DOMAIN p : i < Len(p) => AbsI(p[i][2]) = m

ASSUME PlanTheorem == \A f \in Times : \A t \in Times : \A m \in MaxDts : PlanOKExact(f, t, m)

(***************************************************************************)
(* Readings are folded IN THE ORDER GIVEN: propagate the held estimate to  *)
(* the reading's timestamp, apply the update, hold the result there.       *)
(***************************************************************************)
RECURSIVE Fold(_, _, _, _)
Fold(h, rs, m, c) ==
  IF rs = <<>> THEN h
  ELSE LET r == Head(rs) IN
       Fold([t |-> r.t, hist |-> h.hist \o PlanC(h.t, r.t, m, c) \o << <<"S", r.key, r.id>> >>],
            Tail(rs), m, c)

Report(h, out, m, c) == h.hist \o PlanC(h.t, out, m, c)

Init ==
  /\ max \in MaxDts /\ hasControl \in BOOLEAN
  /\ t0 \in Times /\ held = [t |-> t0, hist |-> <<>>] /\ ghost = held
  /\ nr = 0 /\ pend = <<>> /\ log = <<>> /\ last = <<>> /\ done = FALSE

\* the caller appends one stamped reading to the list it will pass to the next tick
AddReading(t, key) ==
  /\ ~done /\ Len(log) < MaxTicks /\ Len(pend) < MaxReadings
  /\ pend' = Append(pend, <<t, key, 0>>)
  /\ UNCHANGED <<max, t0, hasControl, held, ghost, nr, log, last, done>>

\* the caller lists a reading OBJECT it already listed once more (the list is a sequence, not a set: the same reading is
\* folded again, at its place)
RepeatReading(i) ==
  /\ ~done /\ Len(log) < MaxTicks /\ Len(pend) < MaxReadings
  /\ i \in DOMAIN pend /\ pend[i][3] = 0
  /\ pend' = Append(pend, <<pend[i][1], pend[i][2], i>>)
  /\ UNCHANGED <<max, t0, hasControl, held, ghost, nr, log, last, done>>

\* attach ids to the readings of this tick: unique per reading object (a repeated object keeps its id)
WithIds(raw) == [i \in DOMAIN raw |-> [t |-> raw[i][1], key |-> raw[i][2],
                                      id |-> nr + (IF raw[i][3] = 0 THEN i ELSE raw[i][3])]]

\* a model with control inputs cannot be ticked without them
TickRefused(out) ==
  /\ ~done /\ Len(log) < MaxTicks /\ hasControl
  /\ log' = Append(log, [out |-> out, ctl |-> FALSE, rs |-> WithIds(pend), refused |-> TRUE,
                         ret |-> <<>>, held_t |-> held.t, held_hist |-> held.hist])
  /\ last' = [kind |-> "refused", nrs |-> Len(pend)]
  /\ pend' = <<>>
  /\ UNCHANGED <<max, t0, hasControl, held, ghost, nr, done>>

Tick(out, ctl) ==
  /\ ~done /\ Len(log) < MaxTicks
  /\ (hasControl => ctl)
  /\ LET raw == pend
         rs == WithIds(raw)
         c  == IF ctl THEN Len(log) + 1 ELSE 0
         h2 == Fold(held, rs, max, c) IN
     /\ held' = h2
     /\ ghost' = IF raw = <<>> THEN ghost ELSE Fold(ghost, rs, max, c)
     /\ nr' = nr + Len(raw)
     /\ log' = Append(log, [out |-> out, ctl |-> ctl, rs |-> rs, refused |-> FALSE,
                            ret |-> Report(h2, out, max, c), held_t |-> h2.t, held_hist |-> h2.hist])
     /\ last' = [kind |-> "tick", nrs |-> Len(raw), out |-> out, c |-> c, ret |-> Report(h2, out, max, c), before |-> held]
  /\ pend' = <<>>
  /\ UNCHANGED <<max, t0, hasControl, done>>

Emit ==
  /\ ~done /\ Len(log) >= MinTicks /\ EmitOn /\ pend = <<>>
  /\ PrintT(ToJson([max |-> max, t0 |-> t0, hasControl |-> hasControl, ticks |-> log]))
  /\ done' = TRUE
  /\ UNCHANGED <<max, t0, hasControl, held, ghost, nr, pend, log, last>>

Next ==
  \/ \E t \in Times : \E key \in Keys : AddReading(t, key)
  \/ \E i \in 1..MaxReadings : \E w \in 1..4 : RepeatReading(i)      \* (w only weights the simulator's uniform draw over action instances)
  \/ \E out \in Times : \E ctl \in BOOLEAN : Tick(out, ctl)
  \/ \E out \in Times : TickRefused(out)
  \/ Emit

Spec == Init /\ [][Next]_vars

\* fingerprint without the observation variables (exhaustive configs)
View == <<max, t0, hasControl, held, ghost, nr, pend, Len(log), done>>

(***************************************************************************)
(* Theorems (C10 / C11)                                                    *)
(***************************************************************************)
\* the held estimate is always "initial estimate advanced through its history":
\* every P step in it obeys the bound
RECURSIVE AllBounded(_, _)
AllBounded(h, m) == h = <<>> \/ ((Head(h)[1] = "P" => AbsI(Head(h)[2]) <= m /\ Head(h)[2] # 0) /\ AllBounded(Tail(h), m))
InvBounded == AllBounded(held.hist, max)

\* C11b: a tick without readings never changes what later ticks return
\* (the run with all such ticks removed holds the same estimate at the same time)
InvGhost == held = ghost

\* the report is the held estimate propagated to the output time and is NOT held
InvReport == (last # <<>> /\ last.kind = "tick") =>
                /\ last.ret = Report(held, last.out, max, last.c)
                /\ (last.nrs = 0 => held = last.before)

\* a refused tick changes nothing
ActRefused == [][(last' # last /\ last'.kind = "refused") => held' = held /\ ghost' = ghost]_vars
\* the held time only moves to reading timestamps
ActHeldTime == [][held'.t # held.t => (log' # log /\ Len(log'[Len(log')].rs) > 0
                                        /\ held'.t = log'[Len(log')].rs[Len(log'[Len(log')].rs)].t)]_vars
=============================================================================
