---- MODULE MC_C01_sim ----
EXTENDS Formak
cShapes == {[nS |-> a, nC |-> b, nK |-> c, sens |-> <<>>] : a \in 1..3, b \in 0..2, c \in 0..2}
cSyms == SymPool
cOps == {"add","sub","mul","div","neg","pow2","pow3","sin","cos","exp","tanh","atan","sqrt1","log1","tan","asinb","acosb","muldt","usat","abs1"}
cConsts == <<RI(2), RQ(1,2), RI(-1), RI(3)>>
cVals == <<RI(1), RI(-2), RI(3), RI(-1), RI(2), RI(-3), RQ(1,2), RQ(-3,2), RQ(5,4)>>
cDts == <<RQ(1,8), RQ(1,4), RQ(1,2), RI(1), RI(0), RQ(-1,4)>>
cCalVals == <<RI(2), RI(-1), RQ(3,2), RI(-3)>>
cOne == <<RI(1)>>
cKs == {NoGate}
cInts == <<1>>
cActs == {"ModelEval", "ModelEvalNear"}
cNoSeq == <<>>
====
