"""C11 -- tick = fold readings in order, hold at last reading, report at output time."""
import json
import os

import cppbuild
import mfcheck
from common import finish

LEVEL = "model_checking"
ASSUME = ["free-monoid recording filters (Python duck type, C++ Impl): any concrete filter is a homomorphic image",
          "prediction steps are compared by net displacement per run of steps here (their sizing is C10's business)",
          "dyadic time grid, g++ 12 -std=c++20, real runtime.py / ManagedFilter.h"]


def norm(ops):
    return [tuple(o) for o in mfcheck.collapse(ops)]


def run(ctx):
    scns, stats = mfcheck.generate(ctx, ctx.quick)
    if scns is None:
        ctx.violation("spec-invariant", stats["tlc_violation"][:500], stats)
        return finish(ctx, LEVEL, {"states": 1, "transitions": 1, "traces_validated_against_impl": 0, "samples": [stats]}, ASSUME)
    ticks_checked = 0
    pres = mfcheck.replay_python(ctx, scns)
    py_rets = {}
    for s, o in zip(scns, pres):
        mm = o["mismatch"]
        ticks_checked += o["ticks"]
        if not mm:
            continue
        w = mm["what"]
        if w == "returned-call-sequence":
            if norm(mm["expected"]) != norm(mm["observed"]):
                ctx.violation("py:returned-sequence", "tick %d: expected %s got %s" % (mm["tick"], norm(mm["expected"])[:6], norm(mm["observed"])[:6]),
                              {"scenario": s, "mismatch": mm})
        elif w == "held-estimate":
            if mm["expected"][0] != mm["observed"][0] or norm(mm["expected"][1]) != norm(mm["observed"][1]):
                ctx.violation("py:held-estimate", "tick %d: held expected t=%s %s got t=%s %s" %
                              (mm["tick"], mm["expected"][0], norm(mm["expected"][1])[:6], mm["observed"][0], norm(mm["observed"][1])[:6]),
                              {"scenario": s, "mismatch": mm})
        else:
            ctx.violation("py:" + w, str(mm.get("observed"))[:300], {"scenario": s, "mismatch": mm})
    cres = mfcheck.replay_cpp(ctx, scns)
    for (hc, hk), r in sorted(cres.items()):
        if r["build"] is not None:
            ctx.violation("cpp:build:control=%d,calibration=%d" % (hc, hk), r["build"][-600:], {"combo": [hc, hk], "stderr": r["build"]})
            continue
        for si, s in enumerate(r["scns"], start=1):
            for ti, tk in enumerate(s["ticks"], start=1):
                if tk["refused"] or (hc and not tk["ctl"]):
                    continue
                obs = r["rets"].get((si, ti))
                exp = mfcheck.expected_ops(tk, r["keyidx"], has_control=bool(hc))
                ticks_checked += 1
                if obs is None or norm(exp) != norm(obs):
                    kinds = {o[0] for o in (obs or [])}
                    key = "cpp:wrong-calibration" if kinds & {"X", "Y"} else "cpp:returned-sequence"
                    ctx.violation(key, "control=%d calibration=%d tick %d: expected %s got %s" % (hc, hk, ti, norm(exp)[:6], norm(obs or [])[:6]),
                                  {"scenario": s, "tick": ti, "combo": [hc, hk], "expected": exp, "observed": obs})
                    break
    # negative compile tests: the statically refused calls
    jobs = []
    for hc in (0, 1):
        for neg in (0, 1, 2):
            jobs.append({"sources": ["/verif/cxx/mf_negative.cpp"], "out": os.path.join(ctx.work, "neg_%d_%d" % (hc, neg)),
                         "defines": ["HAS_CONTROL=%d" % hc, "NEG=%d" % neg], "_hc": hc, "_neg": neg})
    res = cppbuild.compile_many(jobs)
    neg_checked = 0
    for job, (ok, err) in zip(jobs, res):
        neg_checked += 1
        if job["_neg"] == 0 and not ok:
            ctx.violation("cpp:legal-tick-rejected:control=%d" % job["_hc"], err[-500:], {"job": job, "stderr": err})
        if job["_neg"] > 0 and ok:
            what = ("tick without control accepted on a filter with control" if job["_hc"]
                    else "tick with control accepted on a filter without control")
            ctx.violation("cpp:illegal-tick-compiles:control=%d,variant=%d" % (job["_hc"], job["_neg"]), what, {"job": job})
    realpart = real_filter_part(ctx)
    nontriv = sum(1 for s in scns if sum(len(tk["rs"]) for tk in s["ticks"]) >= 2)
    cov = {"states": stats["states"], "transitions": stats["transitions"],
           "traces_validated_against_impl": len(scns) * 3,
           "samples": scns[:1] + scns[-1:],
           "evaluations": ticks_checked, "distinct_nontrivial": nontriv,
           "negative_compile_tests": neg_checked,
           "rule": "behaviour = history of ticks; non-trivial = at least two readings in the history (order, hold and report "
                   "semantics are exercised); replayed into runtime.py and ManagedFilter.h (4 tag combinations)",
           "exhaustive": bool(stats.get("exhaustive_replayed_all")),
           "exhaustive_scope": "MC_MF_E / MC_MF_Eq: all histories of <=2 ticks x <=2 readings on 7 (5) time points model-checked for "
                               "InvGhost (reading-less ticks never matter), InvReport, ActRefused, ActHeldTime; MC_MF_E1 replayed",
           "tlc_runs": stats["tlc_runs"], "real_python_filter": realpart}
    return finish(ctx, LEVEL, cov, ASSUME)


def replay(ctx, path):
    body = json.load(open(path))
    s = body["payload"].get("scenario")
    if s is None:
        return 2
    pres = mfcheck.replay_python(ctx, [s])
    print(json.dumps(pres[0], default=str)[:1000])
    return 1 if pres[0]["mismatch"] else 0


# ------------------------------------------------------------------ second family: a REAL compiled filter (Python) ----
def real_filter_task(mods, defj, mf_scns, maxn):
    """tick a real compiled (non-linear, dt-dependent) Python EKF through runtime.ManagedFilter along ManagedFilter.tla histories and
    compare every returned / held estimate with the hand fold of process_model / sensor_model in the call order the SPEC gives"""
    import numpy as np
    import pyrep
    from build import Definition
    ui, python, runtime = mods["ui"], mods["python"], mods["runtime"]
    UNIT = 2.0 ** -10
    d = Definition(defj)
    model, symtab = pyrep.make_ui_model(d, ui)
    pn, sm, sn, cm = pyrep.ekf_args(d, symtab)
    ekf = python.compile_ekf(model, pn, sm, sn, cm, config={"common_subexpression_elimination": False, "innovation_filtering": None, "max_dt_sec": maxn * UNIT})
    keys = sorted(d.sensors)
    out = []
    for s in mf_scns:
        x0 = ekf.State(**{n: (i + 1) / 2.0 for i, n in enumerate(d.state)})
        P0 = ekf.Covariance()
        mf = runtime.ManagedFilter(ekf, start_time=s["t0"] * UNIT, state=x0, covariance=P0)
        bad = None
        try:
            for ti, tk in enumerate(s["ticks"], start=1):
                ctl = ekf.Control(**{c: (ti + j) / 4.0 for j, c in enumerate(d.control)}) if tk["ctl"] else None
                mk = lambda r: {rn: (r["id"] * 3 + j) / 4.0 - 1.0 for j, rn in enumerate(sorted(d.sensors[keys[int(r["key"][1:]) - 1]]))}
                objs = {}        # the same reading listed twice is the same object listed twice
                for r in tk["rs"]:
                    if r["id"] not in objs:
                        objs[r["id"]] = runtime.StampedReading(r["t"] * UNIT, keys[int(r["key"][1:]) - 1], **mk(r))
                readings = [objs[r["id"]] for r in tk["rs"]]
                if tk["refused"]:
                    try:
                        mf.tick(tk["out"] * UNIT, control=None, readings=readings)
                        bad = {"tick": ti, "what": "tick-without-control-accepted"}
                        break
                    except TypeError:
                        continue
                got = mf.tick(tk["out"] * UNIT, control=ctl, readings=readings)
                # hand fold in the spec's order
                st, cv = x0, P0
                rd_by_id = {r["id"]: (keys[int(r["key"][1:]) - 1], mk(r)) for t2 in s["ticks"][:ti] if not t2["refused"] for r in t2["rs"]}
                ctl_by_tick = {t2i: (ekf.Control(**{c: (t2i + j) / 4.0 for j, c in enumerate(d.control)})) for t2i in range(1, ti + 1)}
                for op in tk["ret"]:
                    if op[0] == "P":
                        c_ = ctl_by_tick[op[2]] if op[2] else (ekf.Control() if not d.control else None)
                        st, cv = ekf.process_model(op[1] * UNIT, st, cv, c_)
                    else:
                        key, z = rd_by_id[op[2]]
                        st, cv = ekf.sensor_model(st, cv, sensor_key=key, sensor_reading=ekf.make_reading(key, **z))
                if not (np.array_equal(got.state.data, st.data) and np.array_equal(got.covariance.data, cv.data)):
                    if np.all(np.isfinite(st.data)) and np.all(np.isfinite(got.state.data)):
                        bad = {"tick": ti, "what": "tick-differs-from-hand-fold", "expected": st.data.tolist(), "observed": got.state.data.tolist()}
                        break
        except (AssertionError, ZeroDivisionError, FloatingPointError, np.linalg.LinAlgError) as e:
            bad = None       # the history left the filter's domain (invalid covariance / pole): no claim
        out.append(bad)
    return out


def real_filter_part(ctx):
    import random
    import tlc
    import workers
    from build import Definition
    rnd = random.Random(ctx.seed)
    r = tlc.run("MC_EKF", cfg="MC_C12_sim.cfg", mode="sim", workers=8, num=(10 if ctx.quick else 60), depth=90, seed=ctx.seed + 11, timeout=600)
    defs = r.printed[: (12 if ctx.quick else 150)]
    mf = {}
    for n in range(4):
        rr = tlc.run("MC_MF_c12_%d" % n, mode="sim", workers=2, num=(60 if ctx.quick else 600), depth=40, seed=ctx.seed + 12, timeout=600)
        mf[n] = rr.printed
    tasks, meta = [], []
    for i, s in enumerate(defs):
        d = Definition(s["def"])
        maxn = 1 + i % 3
        pool = [m for m in mf[min(3, len(d.sensors))] if m["max"] == maxn and bool(m["hasControl"]) == bool(d.control)]
        rnd.shuffle(pool)
        pick = pool[: (5 if ctx.quick else 15)]
        if pick:
            tasks.append(("props.c11", "real_filter_task", (s["def"], pick, maxn), 600))
            meta.append((s, pick))
    res = workers.run_tasks(tasks, procs=ctx.cores)
    n = 0
    for (s, pick), (status, outs) in zip(meta, res):
        if status != "ok":
            ctx.dropped += 1
            ctx.notes.append(str(outs)[-300:])
            continue
        for h, bad in zip(pick, outs):
            n += 1
            if bad:
                ctx.violation("py-real-filter:" + bad["what"], "tick %s: %s" % (bad["tick"], json.dumps(bad)[:300]), {"definition": s["def"], "history": h, "mismatch": bad})
    return {"real_filter_histories": n, "real_filters": len(meta)}
