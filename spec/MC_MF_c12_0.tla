---- MODULE MC_MF_c12_0 ----
EXTENDS ManagedFilter
cTimes == -6..6
cMaxDts == {1, 2, 3}
cKeys == {}
====
