------------------------------- MODULE Binding -------------------------------
(***************************************************************************)
(* Construction of named vectors and covariances (C13): each value is      *)
(* stored under its OWN NAME, unknown names and wrong shapes are refused,  *)
(* everything else defaults (zero; unit variance for covariances).         *)
(***************************************************************************)
EXTENDS Names, Rational, TLC, Json

CONSTANTS Pool,       \* names a vector may be declared over
          Strangers,  \* names never declared (unknown keys; near-miss spellings)
          ValRing,    \* sequence of rationals
          EmitOn

VARIABLES kind, arglist, kw, shape, done
vars == <<kind, arglist, kw, shape, done>>

\* the abstract result of constructing from keyword values
MkVector(args, k) ==
  IF DOMAIN k \subseteq args
  THEN [outcome |-> "ok", data |-> [n \in args |-> IF n \in DOMAIN k THEN k[n] ELSE Zero]]
  ELSE [outcome |-> "refused"]
MkCovariance(args, k) ==
  IF DOMAIN k \subseteq args
  THEN [outcome |-> "ok", data |-> [r \in args |-> [c \in args |->
                   IF r = c THEN (IF r \in DOMAIN k THEN k[r] ELSE One) ELSE Zero]]]
  ELSE [outcome |-> "refused"]
\* construction from raw data: only the declared shape is accepted
FromDataOK(knd, args, shp) ==
  shp = (IF knd = "vector" THEN <<Cardinality(args), 1>> ELSE <<Cardinality(args), Cardinality(args)>>)

Init == /\ kind \in {"vector", "covariance"} /\ arglist \in {S \in SUBSET Pool : Cardinality(S) <= 3}
        /\ kw = <<>> /\ shape = <<>> /\ done = FALSE

ValOf(n) == ValRing[((Len(Code[n]) + Code[n][1]) % Len(ValRing)) + 1]

\* keyword construction: any subset of declared and stranger names
Keyword(keys) ==
  /\ ~done /\ keys \in SUBSET (arglist \cup Strangers) /\ Cardinality(keys) <= 3
  /\ kw' = [n \in keys |-> ValOf(n)]
  /\ done' = TRUE
  /\ (EmitOn => PrintT(ToJson([mode |-> "keyword", kind |-> kind, arglist |-> SortNames(arglist), kw |-> kw',
                                expect |-> IF kind = "vector" THEN MkVector(arglist, kw') ELSE MkCovariance(arglist, kw')])))
  /\ UNCHANGED <<kind, arglist, shape>>

RawData(r, c) ==
  /\ ~done /\ r \in 0..4 /\ c \in 0..4
  /\ shape' = <<r, c>> /\ done' = TRUE
  /\ (EmitOn => PrintT(ToJson([mode |-> "from_data", kind |-> kind, arglist |-> SortNames(arglist), shape |-> shape',
                                expect |-> [outcome |-> IF FromDataOK(kind, arglist, shape') THEN "ok" ELSE "refused"]])))
  /\ UNCHANGED <<kind, arglist, kw>>

Next == (\E keys \in SUBSET (Pool \cup Strangers) : Keyword(keys)) \/ (\E r \in 0..4 : \E c \in 0..4 : RawData(r, c))

\* theorems: a stored value is the value given under that name; defaults otherwise
InvStoredByName ==
  (done /\ shape = <<>> /\ DOMAIN kw \subseteq arglist) =>
     LET v == MkVector(arglist, kw).data IN \A n \in arglist : v[n] = (IF n \in DOMAIN kw THEN kw[n] ELSE Zero)
InvUnknownRefused ==
  (done /\ shape = <<>> /\ ~(DOMAIN kw \subseteq arglist)) =>
     MkVector(arglist, kw).outcome = "refused" /\ MkCovariance(arglist, kw).outcome = "refused"
=============================================================================
