---- MODULE MC_EKF ----
(* constants shared by the filter configurations (C03-C07, C09, C13, C16) *)
EXTENDS Formak
SensShapes == {<<1>>, <<2>>, <<3>>, <<4>>, <<1, 2>>, <<2, 1>>, <<2, 2>>, <<1, 3>>, <<1, 1, 2>>, <<1, 1, 1, 1>>, <<2, 4>>}
cShapes == {[nS |-> a, nC |-> b, nK |-> c, sens |-> s] : a \in 1..4, b \in 0..2, c \in 0..2, s \in SensShapes}
\* two calibration terms always (layout of the calibration vector inside sensor models and sensor Jacobians)
cShapesCal == {[nS |-> a, nC |-> b, nK |-> 2, sens |-> s] : a \in 1..2, b \in 0..1, s \in {<<2>>, <<1, 2>>, <<3>>}}
\* controls and calibrations always present (mixed-symbol expressions through chained binary growth)
cShapesMix == {[nS |-> a, nC |-> b, nK |-> c, sens |-> s] : a \in 2..3, b \in 1..2, c \in 1..2, s \in {<<2>>, <<1, 2>>}}
\* prediction histories whose control Jacobian depends on state and control: two controls, products only
cShapesCtl == {[nS |-> a, nC |-> 2, nK |-> c, sens |-> <<>>] : a \in 1..2, c \in 0..1}
cOpsMulAdd == {"mul", "add"}
cShapesNoSens == {[nS |-> a, nC |-> b, nK |-> c, sens |-> <<>>] : a \in 1..4, b \in 0..3, c \in 0..2}
cShapesAll == cShapes \cup cShapesNoSens
cShapesC12 == {[nS |-> a, nC |-> b, nK |-> c, sens |-> s] : a \in 1..2, b \in 0..2, c \in 0..1, s \in {<<>>, <<2>>, <<1, 2>>, <<1, 1, 2>>}}
cActsNone == {}
cShapesE == {[nS |-> 2, nC |-> 1, nK |-> c, sens |-> <<2>>] : c \in 0..1}
cSeqE == <<"b", "A0", "a_", "a1">>
cSymsE == {"b", "A0", "a_", "a1"}
cOpsE == {"add", "mul", "sub"}
cConstsE == <<RI(2)>>
cValsE == <<RI(1), RI(-2), RI(3)>>
cDtsE == <<RQ(1,2)>>
cPDiagE == <<1, 2>>
cPVecE == <<1, -1>>
cZE == <<RI(1), RI(-9)>>
cSensE == {"s1"}
cReadE == {"r", "Q"}
cKsE == {NoGate, RI(1)}
cCalE == <<RI(2)>>
cNoiseE == <<RI(1), RI(3)>>
cShapesBig == {[nS |-> 3, nC |-> b, nK |-> c, sens |-> s] : b \in 1..2, c \in 0..1, s \in {<<3>>, <<2, 2>>, <<3, 2>>}}
cSyms == SymPool
cSymsCluster == ClusterPool
cActsEval == {"ModelEval", "ModelEvalNear", "JacEval", "JacEvalNear", "SensEval", "SensEvalNear"}
cSensors == SensorPool
cReadings == ReadingPool
cOpsAll == {"add","sub","mul","div","neg","pow2","pow3","sin","cos","exp","tanh","atan","sqrt1","log1","tan","asinb","acosb","muldt","abs1"}
\* |.| written as sqrt(.^2) around shared compound terms that take both signs
cOpsAbs == {"add","sub","mul","neg","abs1","muldt"}      \* (|e dt| at negative steps: the sign of dt is not known to anyone)
\* a USER function (Config.python_modules) inside shared sub-terms
cOpsSat == {"add", "mul", "usat"}
cOpsRat == {"add","sub","mul","div","neg","pow2","muldt"}
cOpsLin == {"add","sub","neg","muldt"}
cConsts == <<RI(2), RQ(1,2), RI(-1), RI(3)>>
cVals == <<RI(1), RI(-2), RI(3), RI(-1), RI(2), RI(-3), RQ(1,2), RQ(-3,2), RQ(5,4)>>
cValsInt == <<RI(1), RI(-2), RI(3), RI(-1), RI(2), RI(0), RI(-3)>>
cDts == <<RQ(1,8), RQ(1,4), RQ(1,2), RI(1), RI(0), RQ(-1,4)>>
cDts2 == <<RQ(1,4), RQ(1,2), RI(0)>>
cCalVals == <<RI(2), RI(-1), RQ(3,2), RI(-3)>>
cPNoise == <<RI(1), RI(2), RI(0), RI(3), RQ(1,2)>>      \* (zero noise for a declared control is valid: only negative is not)
cSNoise == <<RI(1), RI(3), RI(2), RI(5), RI(4)>>
cKsNone == {NoGate}
cKsAll == {NoGate, RI(1), RI(3), RI(5), RQ(1,2), RQ(322,125), RQ(1,256)}
cKsOn == {RI(1), RI(3), RI(5), RQ(1,2), RQ(322,125), RQ(1,256)}
cPDiag == <<1, 2, 3, 4, 2>>
cPVec == <<1, 0, -1, 2, 1>>
\* start covariances D + v v^T that are only positive SEMI-definite for some rotations (zero-variance states, exactly correlated states)
cPDiag0 == <<0, 1, 0, 2, 0>>
cZDeltas == <<RI(1), RI(-2), RQ(1,2), RI(5), RI(-9), RI(40), RI(0), RI(3)>>
cNoSeq == <<>>
cActsModel == {"ModelEval", "ModelEvalNear"}
cActsJac == {"JacEval", "JacEvalNear", "SensEval", "SensEvalNear"}
cActsPredict == {"SetEstimate", "Predict"}
cActsUpdate == {"SetEstimate", "Update"}
cActsAll == {"ModelEval", "JacEval", "SensEval", "SetEstimate", "Predict", "Update"}      \* (the Near pairs belong to the evaluation-only configurations: here they would crowd out the filter steps)
cActsTransform == {"DefaultEstimate", "TransformRow"}
cZAbs == <<RI(1), RI(-2), RQ(1,2), RI(3), RI(0), RI(-1), RI(2), RQ(-3,2)>>
cShapesT == {[nS |-> a, nC |-> b, nK |-> c, sens |-> s] : a \in 1..2, b \in 0..2, c \in 0..1, s \in {<<1>>, <<2>>, <<1, 2>>, <<2, 1>>, <<1, 1, 2>>}}
cActsFilter == {"SetEstimate", "Predict", "Update"}
====
