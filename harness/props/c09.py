"""C09 -- valid covariance in, valid covariance out, along any update history."""
import json
import math
import traceback

import cppcheck
import numeric
import scen
import tlc
import trace
import workers
from build import Definition, make_ui_model, ekf_args
from common import finish

LEVEL = "model_checking"
ASSUME = ["exact part: InvCovValid (symmetric, all principal minors >= 0, exact rationals) holds on every state of Formak.tla behaviours, incl. "
          "models with singular process Jacobians; those behaviours are replayed into the Python filter (no refusal, values match)",
          "the exact behaviours (start covariances D + v v^T incl. singular ones) are also replayed into the generated C++ filter",
          "rounding part: TLC only checks the protocol CovGate (valid_in => not refused and valid_out); validity is decided by the projection: "
          "symmetric within 1e-9*s and lambda_min >= -1e-9*s (numpy eigvalsh) with s = |P| for inputs (strict) and s = the largest covariance "
          "magnitude seen so far in the history for outputs (rounding is relative to the operands) -- TLC has no floating point (DESIGN 6)",
          "histories are bounded and well conditioned: start covariances have magnitude 1e-9 .. 1e8 with noises scaled alike (prior-to-noise ratio <= ~1e4); a history ends when |x| > 1e8 or |P| exceeds 1e4 times the start magnitude"]


def valid_cov(P, ref=0.0):
    """symmetric and positive semi-definite up to rounding RELATIVE TO THE MAGNITUDES INVOLVED: `ref` is the largest
    covariance magnitude seen so far in the history (an update P - K H P computed from operands of magnitude |P_in|
    cannot be more accurate than eps*|P_in| in absolute terms, whatever the magnitude of its result)."""
    import numpy as np
    P = np.asarray(P, dtype=float)
    if not np.all(np.isfinite(P)):
        return False
    scale = max(1e-300, float(np.max(np.abs(P))), ref) if P.size else 1.0      # relative to the covariance's own magnitude: no floor
    if np.max(np.abs(P - P.T), initial=0.0) > 1e-9 * scale:
        return False
    lam = np.linalg.eigvalsh((P + P.T) / 2.0) if P.size else np.array([0.0])
    return bool(lam.min() >= -1e-9 * scale)


def fixed_models(ui):
    S = ui.Symbol
    dt = S("dt")
    out = []
    mass, z, v, a, thrust = S("mass"), S("z"), S("v"), S("a"), S("thrust")
    out.append(("mass-z-v-a (project example, singular Jacobian)",
                ui.Model(dt=dt, state={mass, z, v, a}, control={thrust},
                         state_model={mass: mass, z: z + dt * v, v: v + dt * a, a: -9.81 * mass + thrust}),
                {thrust: 1.0}, {"alt": {"h": z}, "acc": {"g": a, "m": mass}}, {"alt": {"h": 1.0}, "acc": {"g": 0.5, "m": 2.0}}, {}))
    out.append(("mass-z-v-a with a two-reading sensor in which large correlated variances cancel",
                ui.Model(dt=dt, state={mass, z, v, a}, control={thrust},
                         state_model={mass: mass, z: z + dt * v, v: v + dt * a, a: -9.81 * mass + thrust}),
                {thrust: 1.0}, {"alt": {"h": z}, "weight": {"w1": a + 9.81 * mass, "w2": 0.7 * a + 6.867 * mass}},
                {"alt": {"h": 1.0}, "weight": {"w1": 1.0, "w2": 1.0}}, {}))
    x, y, vx, vy, ax = S("x"), S("y"), S("vx"), S("vy"), S("ax")
    out.append(("constant velocity 2d, exactly correlated copy state",
                ui.Model(dt=dt, state={x, y, vx, vy}, control={ax},
                         state_model={x: x + dt * vx, y: x + dt * vx, vx: vx + dt * ax, vy: vx}),
                {ax: 0.3}, {"gps": {"px": x, "py": y}}, {"gps": {"px": 0.25, "py": 4.0}}, {}))
    th, w, b = S("th"), S("w"), S("b")
    import sympy
    out.append(("pendulum-like nonlinear with calibration",
                ui.Model(dt=dt, state={th, w}, control=set(), calibration={b},
                         state_model={th: th + dt * w, w: w - dt * (sympy.sin(th) + b * w)}),
                {}, {"enc": {"q": th}, "gyro": {"r": w + b}}, {"enc": {"q": 0.01}, "gyro": {"r": 0.1}}, {b: 0.2}))
    p = S("p")
    out.append(("constant state (zero Jacobian row), no control",
                ui.Model(dt=dt, state={p, th}, control=set(), state_model={p: 3.0 + 0 * p, th: th + dt * p}),
                {}, {"s": {"r": th}}, {"s": {"r": 1.0}}, {}))
    return out


def run_history(mods, job):
    """One randomised history on one model.  -> list of events for CovGate_Trace."""
    import numpy as np
    ui, python = mods["ui"], mods["python"]
    rng = np.random.default_rng(job["seed"])
    if "def" in job:
        d = Definition(job["def"])
        model, symtab = make_ui_model(d, ui)
        pn, sm, sn, cm = ekf_args(d, symtab)
        name = "tlc-drawn"
    else:
        name, model, pn, sm, sn, cm = fixed_models(ui)[job["model"]]
    max_dt = job.get("max_dt", 0.1)
    # magnitudes from 1e-3 to 1e8 ("bounded" covariances include large ones, e.g. positions in m^2 far from the origin) with
    # BOUNDED CONDITIONING: the noises scale with the covariance, so prior-to-noise ratios stay within ~1e4 and the rounding
    # error of the standard update form P - K H P stays many orders below the validity tolerance
    mag = float(10.0 ** rng.integers(-9, 9))
    if job.get("scale_noise", True) and not job.get("exact_sensors"):
        pn = {k: v * mag for k, v in pn.items()}
        sn = {k: {r: v * mag for r, v in m.items()} for k, m in sn.items()}
    elif job.get("exact_sensors"):
        # third family: (almost) exact sensors -- noise variance 1e-12..1e-10 under covariances of magnitude 1..1e5.  An update then
        # takes a variance down to ~0 by cancellation and rounding may leave it at -1e-20: still a covariance that is valid up to
        # rounding relative to its magnitude, which must not be refused.  Refusals of strictly valid inputs only are judged.
        mag = float(10.0 ** rng.integers(0, 6))
        sn = {k: {r: v * 10.0 ** -int(rng.integers(10, 13)) for r, v in m.items()} for k, m in sn.items()}
    else:
        # second family: unit noises under large covariances.  Updates then cancel heavily and their outputs may only be valid in
        # the lenient measure; the "never refused" claim still applies to every input that is valid in the strict measure
        mag = float(10.0 ** rng.integers(4, job.get("mag_hi", 9 if job.get("seed", 0) % 2 else 12)))      # (every other history goes up to 1e11)
    ekf = python.compile_ekf(model, pn, sm, sn, cm, config={"common_subexpression_elimination": False, "innovation_filtering": job.get("k"), "max_dt_sec": max_dt})
    state = ekf.State(**{str(s): float(rng.normal()) for s in ekf.arglist_state})
    # start from a random symmetric PSD covariance (possibly singular)
    n = len(ekf.arglist_state)
    A = rng.normal(size=(n, max(1, n - (job["seed"] % 2))))
    cov = ekf.Covariance.from_data(A @ A.T * mag)
    events = []
    keys = sorted(ekf.sensor_models)
    ref = 0.0
    if job.get("diag_mass"):
        # one poorly known state next to well known ones, from an exactly diagonal start: predict / update alternately
        mag = float(job["diag_mass"])          # (the regime bound below is relative to this variance)
        state = ekf.State()
        cov = ekf.Covariance(mass=float(job["diag_mass"]))
    for step in range(job["steps"]):
        P_in = cov.data.copy()
        v_in = valid_cov(P_in)          # strict: relative to its own magnitude -- only such inputs carry the "never refused" claim
        ref = max(ref, float(np.max(np.abs(P_in))))
        kind = "predict" if (not keys or rng.random() < 0.6) else "update"
        if job.get("diag_mass"):
            kind = "predict" if step % 2 == 0 else "update"
        ev = {"kind": kind, "valid_in": v_in, "model": name, "step": step}
        try:
            if kind == "predict":
                dt = float(rng.uniform(1e-4, max_dt))
                ctl = ekf.Control(**{str(c): float(rng.normal()) for c in ekf.arglist_control})
                state, cov = ekf.process_model(dt, state, cov, ctl)
            else:
                key = keys[int(rng.integers(len(keys)))]
                if job.get("diag_mass"):
                    key = "weight"
                smod = ekf.sensor_models[key]
                pred = smod.model(state)
                rd = ekf.make_reading(key, data=pred.data + rng.normal(size=pred.data.shape) * 0.5 * math.sqrt(mag))
                state, cov = ekf.sensor_model(state, cov, sensor_key=key, sensor_reading=rd)
            ev["outcome"] = "ok"
        except AssertionError as e:
            ev["outcome"] = "refused"
            ev["detail"] = str(e)[:300]
            ev["P_in"] = P_in.tolist()
            ev["valid_out"] = False
            events.append(ev)
            break
        except np.linalg.LinAlgError:
            break          # a numerically singular innovation covariance (exact sensors on exactly correlated states): no claim
        except Exception as e:
            ev["outcome"] = "exception:" + type(e).__name__
            ev["detail"] = repr(e)[:200] + traceback.format_exc()[-400:]
            ev["valid_out"] = False
            events.append(ev)
            break
        # the ill-conditioned family makes no claim about outputs (prior-to-noise ratios up to 1e10 amplify rounding with cond(S));
        # there only "a strictly valid input is never refused" is judged
        ev["valid_out"] = valid_cov(cov.data, ref) if (job.get("scale_noise", True) and not job.get("exact_sensors")) else True
        if kind == "update" and cov.data.size:
            # whatever the conditioning, the covariance a sensor update hands back is symmetric relative to ITS OWN magnitude
            # (an asymmetry left by K H P would survive when large variances shrink and be refused later)
            a = float(np.max(np.abs(cov.data - cov.data.T)))
            if a > 1e-12 * max(1e-300, float(np.max(np.abs(cov.data)))):
                ev["valid_out"] = False
        if not ev["valid_out"]:
            ev["P_in"] = P_in.tolist()
            ev["P_out"] = cov.data.tolist()
        events.append(ev)
        # the bounded, well-conditioned regime the assumptions name: the covariance stays within 1e4 times the magnitude the
        # noises were scaled with (prior-to-noise ratio).  (Relative to `mag` itself: with max(1, mag) a history that starts at
        # 1e-8 could reach a ratio of 1e12 -- cond(S) = 6e8 -- and be judged.)
        if not np.all(np.isfinite(state.data)) or np.max(np.abs(state.data)) > 1e8 or np.max(np.abs(cov.data)) > 1e4 * max(mag, 1.0 if job.get("exact_sensors") else 0.0):
            break      # outside the bounded regime the property talks about
    return events


def has_singular(scn):
    """does some covariance of the behaviour (set or produced) have determinant 0 (exact rationals)"""
    from fractions import Fraction
    for st in scn["steps"]:
        P = st.get("P")
        if not isinstance(P, dict) or not P:
            continue
        names = sorted(P)
        try:
            M = [[Fraction(P[r][c][0], P[r][c][1]) for c in names] for r in names]
        except (TypeError, ZeroDivisionError, KeyError, IndexError):
            continue
        n = len(M)
        det = Fraction(1)
        for i in range(n):
            piv = next((k for k in range(i, n) if M[k][i] != 0), None)
            if piv is None:
                det = Fraction(0)
                break
            if piv != i:
                M[i], M[piv] = M[piv], M[i]
                det = -det
            det *= M[i][i]
            for k in range(i + 1, n):
                f = M[k][i] / M[i][i]
                M[k] = [a - f * b for a, b in zip(M[k], M[i])]
        if det == 0:
            return True
    return False


def run(ctx):
    quick = ctx.quick
    # ---- exact part: Formak.tla histories with InvCovValid, replayed ----
    scns, stats = scen.generate(ctx, None, ("MC_EKF", "MC_C09_sim.cfg"), sim_num=(48 if quick else 1200), sim_depth=100)
    if scns is None:
        ctx.violation("spec-invariant", stats["tlc_violation"][:800], stats)
        scns = []
    results = scen.replay_all(ctx, scns, cse_settings=(False,), force_ekf=True)
    counters = scen.record_results(ctx, results, key_prefix="exact:")
    # the same exact behaviours through the generated C++ filter, singular (positive semi-definite) covariances first
    sing = [s for s in scns if has_singular(s)]
    pick = (sing + [s for s in scns if s not in sing])[: (8 if quick else 120)]
    rc = cppcheck.replay_cpp(ctx, pick, cse_settings=(True,), kind="ekf")
    kcpp = cppcheck.record(ctx, rc, key_prefix="exact-cpp:")
    kcpp["behaviours_with_a_singular_covariance"] = len([s for s in pick if s in sing])
    # ---- rounding part: randomised long histories -> CovGate_Trace ----
    jobs = []
    nh = 9 if quick else 90
    steps = 120 if quick else 200
    for m in range(5):
        for i in range(nh):
            jobs.append({"model": m, "seed": ctx.seed * 100000 + m * 1000 + i, "steps": steps, "k": [None, 5.0][i % 2], "max_dt": [0.1, 0.02, 0.5][i % 3],
                         "scale_noise": i % 3 != 2})
    for m in range(5):
        for i in range(16 if quick else 60):
            jobs.append({"model": m, "seed": ctx.seed * 100000 + 70000 + m * 1000 + i, "steps": steps, "k": None, "max_dt": [0.1, 0.5][i % 2],
                         "exact_sensors": True, "scale_noise": True})
    for i, s in enumerate(scns[: (12 if quick else 200)]):
        d = Definition(s["def"])
        if d.sensors:
            jobs.append({"def": s["def"], "seed": ctx.seed * 100000 + 50000 + i, "steps": steps // 2, "k": None})
    # regression corpus: the histories on which the repaired defects D14 and D15 were found (known_findings.json, "fixed:")
    jobs.append({"model": 0, "seed": 56, "steps": 200, "k": None, "max_dt": 0.5, "scale_noise": False, "mag_hi": 9})
    jobs.append({"model": 0, "seed": 100062, "steps": 200, "k": None, "max_dt": 0.5, "scale_noise": False, "mag_hi": 9})
    for mv in (1e8, 1e10, 1e11):
        jobs.append({"model": 1, "seed": 7, "steps": 8, "k": None, "max_dt": 0.1, "scale_noise": False, "mag_hi": 9, "diag_mass": mv})
    for sd in (70006, 270013, 370011, 570005):
        jobs.append({"model": 0, "seed": sd, "steps": 120, "k": None, "max_dt": [0.1, 0.5][sd % 2], "exact_sensors": True, "scale_noise": True})
    ctx.log("%d randomised histories of up to %d steps" % (len(jobs), steps))
    res = workers.run_tasks([("props.c09", "run_history", (j,), 900) for j in jobs], procs=ctx.cores)
    traces, keep = [], []
    for j, (status, ev) in zip(jobs, res):
        if status != "ok":
            ctx.dropped += 1
            ctx.notes.append(str(ev)[-300:])
            continue
        if ev:
            traces.append([{k: e[k] for k in ("kind", "outcome", "valid_in", "valid_out")} for e in ev])
            keep.append((j, ev))
    verdicts, tres = trace.validate("CovGate_Trace", traces)
    nsteps = 0
    for (j, ev), v in zip(keep, verdicts):
        nsteps += len(ev)
        if v is None:
            continue
        bad = ev[v]
        if not bad["valid_in"]:
            continue          # an invalid input was produced by an earlier (already reported) step
        what = "refused-valid-covariance" if bad["outcome"] == "refused" else ("invalid-output" if bad["outcome"] == "ok" else bad["outcome"])
        ctx.violation("%s:%s" % (what, bad["kind"]), "model '%s' step %d (%s): %s %s" % (bad["model"], bad["step"], bad["kind"], what, bad.get("detail", "")[:200]),
                      {"job": j, "event": bad, "history_length": len(ev)})
    repo = None
    if not quick:
        import repotests          # the repository's own tests, recorded and validated against EKFCalls.tla
        repo = repotests.run(ctx, "C09")
    cov = {"states": stats.get("states", 0) + (tres.distinct if tres else 0), "transitions": stats.get("transitions", 0) + (tres.states if tres else 0),
           "traces_validated_against_impl": len(traces) + len(scns), "samples": [traces[0][:4]] if traces else [],
           "evaluations": nsteps + counters["values_compared"], "distinct_nontrivial": len(traces), "history_steps": nsteps,
           "rule": "history = randomised (seeded) sequence of predictions (dt in (0, max_dt]) and sensor updates on 4 fixed models (project's mass/z/v/a, "
                   "exactly correlated states, nonlinear with calibration, zero Jacobian row) and TLC-drawn models; singular start covariances included",
           "exact": counters, "exact_cpp": kcpp, "tlc_runs": stats.get("tlc_runs"), "repo_tests": repo}
    return finish(ctx, LEVEL, cov, ASSUME)


def replay(ctx, path):
    body = json.load(open(path))
    res = workers.run_tasks([("props.c09", "run_history", (body["payload"]["job"],), 600)], procs=1)
    ev = res[0][1]
    print(json.dumps(ev[-1], indent=1)[:1200])
    return 1 if (ev and (ev[-1]["outcome"] != "ok" or not ev[-1]["valid_out"])) else 0
