------------------------------ MODULE Strapdown ------------------------------
(***************************************************************************)
(* Rigid-body kinematics of the strapdown IMU reference model (C19),       *)
(* written from the physics: Hamilton quaternions over exact rationals.    *)
(*                                                                         *)
(*   q      = ori (x) cal                       composed orientation       *)
(*   rates  = vec( q (x) (0, w) (x) q* )        gyro vector rotated (with  *)
(*                                              the explicit |q|^2 factor) *)
(*   accel  = vec( q (x) (0, f-b) (x) q* ) / |q|^2  +  (0, 0, -g)          *)
(*   v'     = v + accel dt                                                 *)
(*   x'     = x + v dt + accel dt^2 / 2                                    *)
(*   ori'   = ori + 1/2 ori (x) (0, w) dt                                  *)
(***************************************************************************)
EXTENDS Rational, TLC, Json

QMul(p, q) ==
  << RSub(RSub(RSub(RMul(p[1], q[1]), RMul(p[2], q[2])), RMul(p[3], q[3])), RMul(p[4], q[4])),
     RSub(RAdd(RAdd(RMul(p[1], q[2]), RMul(p[2], q[1])), RMul(p[3], q[4])), RMul(p[4], q[3])),
     RAdd(RAdd(RSub(RMul(p[1], q[3]), RMul(p[2], q[4])), RMul(p[3], q[1])), RMul(p[4], q[2])),
     RAdd(RSub(RAdd(RMul(p[1], q[4]), RMul(p[2], q[3])), RMul(p[3], q[2])), RMul(p[4], q[1])) >>
QConj(q)  == <<q[1], RNeg(q[2]), RNeg(q[3]), RNeg(q[4])>>
QNorm2(q) == RAdd(RAdd(RAdd(RMul(q[1], q[1]), RMul(q[2], q[2])), RMul(q[3], q[3])), RMul(q[4], q[4]))
QVec(v)   == <<Zero, v[1], v[2], v[3]>>
QScale(q, s) == <<RMul(q[1], s), RMul(q[2], s), RMul(q[3], s), RMul(q[4], s)>>
QAdd(p, q) == <<RAdd(p[1], q[1]), RAdd(p[2], q[2]), RAdd(p[3], q[3]), RAdd(p[4], q[4])>>
\* q (0,v) q*   (NOT divided by |q|^2)
Sandwich(q, v) == QMul(QMul(q, QVec(v)), QConj(q))
Vec3(q) == <<q[2], q[3], q[4]>>
V3Add(a, b) == <<RAdd(a[1], b[1]), RAdd(a[2], b[2]), RAdd(a[3], b[3])>>
V3Sub(a, b) == <<RSub(a[1], b[1]), RSub(a[2], b[2]), RSub(a[3], b[3])>>
V3Scale(a, s) == <<RMul(a[1], s), RMul(a[2], s), RMul(a[3], s)>>
V3Dot(a, b) == RAdd(RAdd(RMul(a[1], b[1]), RMul(a[2], b[2])), RMul(a[3], b[3]))

Half == <<1, 2>>

Expected(in) ==
  LET q     == QMul(in.ori, in.cal)
      n2    == QNorm2(q)
      rates == Vec3(Sandwich(q, in.w))
      rot   == Vec3(Sandwich(q, V3Sub(in.f, in.b)))
      accel == V3Add(V3Scale(rot, RDiv(One, n2)), <<Zero, Zero, RNeg(in.g)>>)
      vel   == V3Add(in.v, V3Scale(accel, in.dt))
      pos   == V3Add(V3Add(in.x, V3Scale(in.v, in.dt)), V3Scale(accel, RMul(Half, RMul(in.dt, in.dt))))
      ori2  == QAdd(in.ori, QScale(QMul(in.ori, QVec(in.w)), RMul(Half, in.dt)))
  IN [rates |-> rates, accel |-> accel, vel |-> vel, pos |-> pos, ori |-> ori2, n2 |-> n2]

AnyBad(seq) == \E i \in DOMAIN seq : IsBad(seq[i])
OutBad(e) == AnyBad(e.rates) \/ AnyBad(e.accel) \/ AnyBad(e.vel) \/ AnyBad(e.pos) \/ AnyBad(e.ori)

CONSTANTS Quats,      \* sequence of quaternions to draw ori / cal from
          Vecs,       \* sequence of 3-vectors to draw w, f from
          Vecs2,      \* sequence of 3-vectors to draw b, x, v from
          Dts, Gs,    \* sequences of rationals
          MaxPoints, EmitOn

VARIABLES pts, cur, fixed, done
vars == <<pts, cur, fixed, done>>

\* the calibration (mounting quaternion, accelerometer bias, gravity) is fixed per behaviour -- it is
\* compiled into the model -- the other inputs vary from point to point
FixedFields == <<"cal", "b", "g">>
Fields == <<"ori", "w", "f", "x", "v", "dt">>
Init == pts = <<>> /\ cur = <<>> /\ fixed = <<>> /\ done = FALSE

ChooseFixed(i) ==
  /\ ~done /\ Len(fixed) < Len(FixedFields)
  /\ LET fld == FixedFields[Len(fixed) + 1] IN
     i \in DOMAIN (IF fld = "cal" THEN Quats ELSE IF fld = "g" THEN Gs ELSE Vecs2)
  /\ fixed' = Append(fixed, i)
  /\ UNCHANGED <<pts, cur, done>>

\* one input field at a time (small successor sets)
Choose(i) ==
  /\ ~done /\ Len(fixed) = Len(FixedFields) /\ Len(pts) < MaxPoints /\ Len(cur) < Len(Fields)
  /\ LET fld == Fields[Len(cur) + 1] IN
     /\ i \in DOMAIN (IF fld = "ori" THEN Quats ELSE IF fld = "dt" THEN Dts
                       ELSE IF fld \in {"w", "f"} THEN Vecs ELSE Vecs2)
     /\ cur' = Append(cur, i)
  /\ UNCHANGED <<pts, fixed, done>>

InputOf(c) == [ori |-> Quats[c[1]], cal |-> Quats[fixed[1]], w |-> Vecs[c[2]], f |-> Vecs[c[3]], b |-> Vecs2[fixed[2]],
               x |-> Vecs2[c[4]], v |-> Vecs2[c[5]], dt |-> Dts[c[6]], g |-> Gs[fixed[3]]]

Eval ==
  /\ ~done /\ Len(cur) = Len(Fields)
  /\ LET in == InputOf(cur)  e == Expected(in) IN
     /\ ~IsBad(e.n2) /\ RSign(e.n2) > 0 /\ ~OutBad(e)
     /\ pts' = Append(pts, [in |-> in, out |-> e])
  /\ cur' = <<>>
  /\ UNCHANGED <<fixed, done>>

\* inputs outside the arithmetic window are abandoned (no verdict)
Abandon ==
  /\ ~done /\ Len(cur) = Len(Fields)
  /\ LET e == Expected(InputOf(cur)) IN IsBad(e.n2) \/ RSign(e.n2) <= 0 \/ OutBad(e)
  /\ cur' = <<>> /\ UNCHANGED <<pts, fixed, done>>

Emit ==
  /\ ~done /\ cur = <<>> /\ Len(pts) >= 1 /\ (Len(pts) = MaxPoints \/ ~EmitOn)
  /\ (EmitOn => PrintT(ToJson(pts)))
  /\ done' = TRUE /\ UNCHANGED <<pts, cur, fixed>>

Next == (\E i \in 1..64 : ChooseFixed(i)) \/ (\E i \in 1..64 : Choose(i)) \/ Eval \/ Abandon \/ Emit

(***************************************************************************)
(* Sanity theorems of the quaternion algebra itself (checked on every      *)
(* evaluated point): |p (x) q|^2 = |p|^2 |q|^2, and the sandwich           *)
(* preserves length up to |q|^4.                                           *)
(***************************************************************************)
InvNormMultiplicative ==
  \A i \in DOMAIN pts :
     LET in == pts[i].in
         lhs == QNorm2(QMul(in.ori, in.cal))
         rhs == RMul(QNorm2(in.ori), QNorm2(in.cal)) IN
     (IsBad(lhs) \/ IsBad(rhs)) \/ lhs = rhs
InvRotationPreservesLength ==
  \A i \in DOMAIN pts :
     LET in == pts[i].in
         q == QMul(in.ori, in.cal)
         r == Vec3(Sandwich(q, in.w))
         lhs == V3Dot(r, r)
         rhs == RMul(RMul(QNorm2(q), QNorm2(q)), V3Dot(in.w, in.w)) IN
     (IsBad(lhs) \/ IsBad(rhs)) \/ lhs = rhs
=============================================================================
