----------------------------- MODULE Definition -----------------------------
(***************************************************************************)
(* Structural validity of a FormaK definition, and the fault catalogue of  *)
(* property C14.                                                           *)
(*                                                                         *)
(* A definition has INDEPENDENT parts so that ill-formed ones are          *)
(* representable:                                                          *)
(*   state, control, calib : sets of names                                 *)
(*   update  : function  name -> Expr      (domain need not equal state)   *)
(*   calmap  : function  name -> Rational  (domain need not equal calib)   *)
(*   pnoise  : function  name -> Rational  (domain need not equal control) *)
(*   ppairs  : function  pair-key -> <<name, name>>  (tuple-keyed entries) *)
(*   sensors : key -> (reading -> Expr)                                    *)
(*   snoise  : key -> (reading -> Rational)                                *)
(*                                                                         *)
(* The state machine: pick a valid base definition, inject 0..MaxFaults    *)
(* faults, then the five entry points of the library each accept or        *)
(* refuse it.  An entry point refuses exactly when a rule IT CAN OBSERVE   *)
(* fails (ui.Model sees the symbol sets and the updates; compile also the  *)
(* calibration map; compile_ekf everything), or an earlier stage of the    *)
(* pipeline already refused.                                               *)
(***************************************************************************)
EXTENDS Expr, Json

CONSTANTS MaxFaults, Bases, EmitOn

VARIABLES base, def, faults, phase

vars == <<base, def, faults, phase>>

\* ------------------------------------------------------------- rules ----
DisjointSets(d) == d.state \cap d.control = {} /\ d.state \cap d.calib = {} /\ d.control \cap d.calib = {}
UpdateCoversState(d) == DOMAIN d.update = d.state
CalMapMatches(d) == DOMAIN d.calmap = d.calib
PNoiseKeysAreControls(d) == DOMAIN d.pnoise \subseteq d.control
PNoiseComplete(d) == d.control \subseteq DOMAIN d.pnoise
PNoisePositive(d) == \A c \in DOMAIN d.pnoise : RSign(d.pnoise[c]) >= 0
SensorsFreeOfControls(d) ==
  \A k \in DOMAIN d.sensors : \A r \in DOMAIN d.sensors[k] : FreeSyms(d.sensors[k][r]) \cap d.control = {}
SensorsDeclaredOnly(d) ==
  \A k \in DOMAIN d.sensors : \A r \in DOMAIN d.sensors[k] :
      FreeSyms(d.sensors[k][r]) \subseteq d.state \cup d.calib \cup d.control
SNoiseSensorsMatch(d) == DOMAIN d.snoise = DOMAIN d.sensors
SNoiseReadingsMatch(d) ==
  \A k \in DOMAIN d.snoise \cap DOMAIN d.sensors : DOMAIN d.snoise[k] = DOMAIN d.sensors[k]

ModelRules(d)   == DisjointSets(d) /\ UpdateCoversState(d)
CompileRules(d) == ModelRules(d) /\ CalMapMatches(d)
EkfRules(d)     == /\ CompileRules(d)
                   /\ PNoiseKeysAreControls(d) /\ PNoiseComplete(d) /\ PNoisePositive(d)
                   /\ SensorsFreeOfControls(d) /\ SensorsDeclaredOnly(d)
                   /\ SNoiseSensorsMatch(d) /\ SNoiseReadingsMatch(d)
Valid(d) == EkfRules(d)

Entries == {"ui.Model", "python.compile", "python.compile_ekf", "cpp.compile", "cpp.compile_ekf"}
Accepts(entry, d) ==
  CASE entry = "ui.Model" -> ModelRules(d)
    [] entry \in {"python.compile", "cpp.compile"} -> CompileRules(d)
    [] entry \in {"python.compile_ekf", "cpp.compile_ekf"} -> EkfRules(d)
Expected(d) == [e \in Entries |-> IF Accepts(e, d) THEN "accepted" ELSE "refused"]

\* ---------------------------------------------------- function surgery ----
Drop(f, k)      == [x \in DOMAIN f \ {k} |-> f[x]]
Put(f, k, v)    == [x \in DOMAIN f \cup {k} |-> IF x = k THEN v ELSE f[x]]
ReKey(f, k, k2) == Put(Drop(f, k), k2, f[k])

Fresh  == "w_"       \* a symbol / reading name that no base definition declares
FreshK == "zzz"      \* a sensor key that no base definition declares
PairKey == "@pair"   \* stands for a process-noise entry keyed by a tuple of two symbols (d.ppairs says which)

(***************************************************************************)
(* The fault catalogue.  A fault is a record [kind, pos(, pos2)].          *)
(* Applicable(f, d) says whether the position exists in d.                 *)
(***************************************************************************)
FaultsOf(d) ==
     {[kind |-> "share.state-control", pos |-> s] : s \in d.state}
  \cup {[kind |-> "share.state-calib", pos |-> s] : s \in d.state}
  \cup {[kind |-> "share.control-calib", pos |-> s] : s \in d.control}
  \cup {[kind |-> "update.drop", pos |-> s] : s \in DOMAIN d.update}
  \cup {[kind |-> "update.add", pos |-> Fresh]}
  \cup {[kind |-> "update.rekey", pos |-> s] : s \in DOMAIN d.update}
  \cup {[kind |-> "calmap.drop", pos |-> s] : s \in DOMAIN d.calmap}
  \cup {[kind |-> "calmap.add", pos |-> Fresh]}
  \cup {[kind |-> "calmap.rekey", pos |-> s] : s \in DOMAIN d.calmap}
  \cup {[kind |-> "pnoise.drop", pos |-> s] : s \in DOMAIN d.pnoise}
  \cup {[kind |-> "pnoise.negative", pos |-> s] : s \in DOMAIN d.pnoise}
  \cup {[kind |-> "pnoise.rekey-unknown", pos |-> s] : s \in DOMAIN d.pnoise}
  \cup {[kind |-> "pnoise.add-state", pos |-> s] : s \in d.state}
  \cup {[kind |-> "pnoise.add-pair", pos |-> c1, pos2 |-> c2] : c1 \in d.control, c2 \in d.control}
  \cup {[kind |-> "sensor.uses-control", pos |-> k, pos2 |-> r, sym |-> c] :
            k \in DOMAIN d.sensors, r \in UNION {DOMAIN d.sensors[kk] : kk \in DOMAIN d.sensors}, c \in d.control}
  \cup {[kind |-> "sensor.uses-undeclared", pos |-> k, pos2 |-> r] :
            k \in DOMAIN d.sensors, r \in UNION {DOMAIN d.sensors[kk] : kk \in DOMAIN d.sensors}}
  \cup {[kind |-> "snoise.drop-sensor", pos |-> k] : k \in DOMAIN d.snoise}
  \cup {[kind |-> "snoise.add-sensor", pos |-> FreshK]}
  \cup {[kind |-> "snoise.drop-reading", pos |-> k, pos2 |-> r] :
            k \in DOMAIN d.snoise, r \in UNION {DOMAIN d.snoise[kk] : kk \in DOMAIN d.snoise}}
  \cup {[kind |-> "snoise.add-reading", pos |-> k, pos2 |-> Fresh] : k \in DOMAIN d.snoise}
  \cup {[kind |-> "snoise.rename-reading", pos |-> k, pos2 |-> r] :
            k \in DOMAIN d.snoise, r \in UNION {DOMAIN d.snoise[kk] : kk \in DOMAIN d.snoise}}

Applicable(f, d) ==
  CASE f.kind \in {"share.state-control", "share.state-calib"} -> f.pos \in d.state
    [] f.kind = "share.control-calib" -> f.pos \in d.control
    \* (drop / re-key / negate only touch entries that belong there, so two faults never cancel)
    [] f.kind \in {"update.drop", "update.rekey"} -> f.pos \in DOMAIN d.update /\ f.pos \in d.state /\ Fresh \notin DOMAIN d.update
    [] f.kind = "update.add" -> Fresh \notin DOMAIN d.update
    [] f.kind \in {"calmap.drop", "calmap.rekey"} -> f.pos \in DOMAIN d.calmap /\ f.pos \in d.calib /\ Fresh \notin DOMAIN d.calmap
    [] f.kind = "calmap.add" -> Fresh \notin DOMAIN d.calmap
    [] f.kind \in {"pnoise.drop", "pnoise.rekey-unknown"} -> f.pos \in DOMAIN d.pnoise /\ f.pos \in d.control /\ Fresh \notin DOMAIN d.pnoise
    [] f.kind = "pnoise.negative" -> f.pos \in DOMAIN d.pnoise /\ f.pos \in d.control /\ RSign(d.pnoise[f.pos]) > 0
    [] f.kind = "pnoise.add-state" -> f.pos \in d.state /\ f.pos \notin DOMAIN d.pnoise
    \* an entry keyed by a PAIR of controls (an off-diagonal covariance) is not "noise for a declared control"
    [] f.kind = "pnoise.add-pair" -> f.pos \in d.control /\ f.pos2 \in d.control /\ PairKey \notin DOMAIN d.pnoise
    [] f.kind = "sensor.uses-control" -> f.pos \in DOMAIN d.sensors /\ f.pos2 \in DOMAIN d.sensors[f.pos] /\ f.sym \in d.control
    [] f.kind = "sensor.uses-undeclared" -> f.pos \in DOMAIN d.sensors /\ f.pos2 \in DOMAIN d.sensors[f.pos]
    [] f.kind = "snoise.drop-sensor" -> f.pos \in DOMAIN d.snoise /\ f.pos \in DOMAIN d.sensors
    [] f.kind = "snoise.add-sensor" -> FreshK \notin DOMAIN d.snoise
    [] f.kind \in {"snoise.drop-reading", "snoise.rename-reading"} ->
         /\ f.pos \in DOMAIN d.snoise /\ f.pos2 \in DOMAIN d.snoise[f.pos] /\ Fresh \notin DOMAIN d.snoise[f.pos]
         /\ f.pos \in DOMAIN d.sensors /\ f.pos2 \in DOMAIN d.sensors[f.pos]
    [] f.kind = "snoise.add-reading" -> f.pos \in DOMAIN d.snoise /\ Fresh \notin DOMAIN d.snoise[f.pos]

Inject(f, d) ==
  CASE f.kind = "share.state-control" -> [d EXCEPT !.control = @ \cup {f.pos}]
    [] f.kind = "share.state-calib"   -> [d EXCEPT !.calib = @ \cup {f.pos}]
    [] f.kind = "share.control-calib" -> [d EXCEPT !.calib = @ \cup {f.pos}]
    [] f.kind = "update.drop"  -> [d EXCEPT !.update = Drop(@, f.pos)]
    [] f.kind = "update.add"   -> [d EXCEPT !.update = Put(@, Fresh, CI(1))]
    [] f.kind = "update.rekey" -> [d EXCEPT !.update = ReKey(@, f.pos, Fresh)]
    [] f.kind = "calmap.drop"  -> [d EXCEPT !.calmap = Drop(@, f.pos)]
    [] f.kind = "calmap.add"   -> [d EXCEPT !.calmap = Put(@, Fresh, One)]
    [] f.kind = "calmap.rekey" -> [d EXCEPT !.calmap = ReKey(@, f.pos, Fresh)]
    [] f.kind = "pnoise.drop"  -> [d EXCEPT !.pnoise = Drop(@, f.pos)]
    [] f.kind = "pnoise.negative" -> [d EXCEPT !.pnoise[f.pos] = RNeg(@)]
    [] f.kind = "pnoise.rekey-unknown" -> [d EXCEPT !.pnoise = ReKey(@, f.pos, Fresh)]
    [] f.kind = "pnoise.add-state" -> [d EXCEPT !.pnoise = Put(@, f.pos, One)]
    [] f.kind = "pnoise.add-pair" -> [d EXCEPT !.pnoise = Put(@, PairKey, Zero), !.ppairs = Put(@, PairKey, <<f.pos, f.pos2>>)]
    [] f.kind = "sensor.uses-control" ->
         [d EXCEPT !.sensors[f.pos][f.pos2] = Bin("add", @, Sym(f.sym))]
    [] f.kind = "sensor.uses-undeclared" ->
         [d EXCEPT !.sensors[f.pos][f.pos2] = Bin("add", @, Sym(Fresh))]
    [] f.kind = "snoise.drop-sensor" -> [d EXCEPT !.snoise = Drop(@, f.pos)]
    [] f.kind = "snoise.add-sensor" -> [d EXCEPT !.snoise = Put(@, FreshK, ("r" :> One))]
    [] f.kind = "snoise.drop-reading" -> [d EXCEPT !.snoise[f.pos] = Drop(@, f.pos2)]
    [] f.kind = "snoise.add-reading" -> [d EXCEPT !.snoise[f.pos] = Put(@, Fresh, One)]
    [] f.kind = "snoise.rename-reading" -> [d EXCEPT !.snoise[f.pos] = ReKey(@, f.pos2, Fresh)]

\* every base definition is valid, and every applicable single fault falsifies validity
ASSUME BasesValid == \A b \in DOMAIN Bases : Valid(Bases[b])
ASSUME FaultTheorem ==
  \A b \in DOMAIN Bases : \A f \in FaultsOf(Bases[b]) : Applicable(f, Bases[b]) => ~Valid(Inject(f, Bases[b]))

\* ------------------------------------------------------- state machine ----
Init == base \in DOMAIN Bases /\ def = Bases[base] /\ faults = <<>> /\ phase = "inject"

InjectFault(f) ==
  /\ phase = "inject" /\ Len(faults) < MaxFaults
  /\ Applicable(f, def)
  /\ \A i \in DOMAIN faults : faults[i] # f
  /\ def' = Inject(f, def)
  /\ faults' = Append(faults, f)
  /\ UNCHANGED <<base, phase>>

\* the definition is presented to the five entry points
Present ==
  /\ phase = "inject"
  /\ phase' = "presented"
  /\ (EmitOn => PrintT(ToJson([base |-> base, faults |-> faults, def |-> def, expected |-> Expected(def), valid |-> Valid(def)])))
  /\ UNCHANGED <<base, def, faults>>

Next == (\E f \in FaultsOf(def) : InjectFault(f)) \/ Present

Spec == Init /\ [][Next]_vars

\* a faulted definition is never valid (for the catalogue, faults do not cancel)
InvFaultedInvalid == (faults # <<>>) => ~Valid(def)
\* refusal is monotone along the pipeline: whatever ui.Model refuses, every compile entry refuses
InvMonotone == /\ (~Accepts("ui.Model", def) => \A e \in Entries : ~Accepts(e, def))
               /\ (~Accepts("python.compile", def) => ~Accepts("python.compile_ekf", def))
               /\ (Accepts("python.compile", def) <=> Accepts("cpp.compile", def))
               /\ (Accepts("python.compile_ekf", def) <=> Accepts("cpp.compile_ekf", def))
=============================================================================
