"""C08 -- common-subexpression elimination never changes a result; temporaries are single-assignment."""
import json
import os
import shutil
import tempfile
import traceback

import cppcheck
import findings
import scen
import trace
import workers
from build import Definition, named, fl, interp, well_conditioned
from common import finish

LEVEL = "translation_validation"
ASSUME = ["programs are extracted from the implementation: Python via the FORMAK_VERIF hook (post-CSE sympy program of every BasicBlock), C++ by parsing "
          "the generated function bodies (unsupported syntax = machinery drop, never a verdict)",
          "CSE_Trace.tla computes the ORIGINAL expressions itself (FilterMath: updates, Diff trees, layout by name order) and checks well-formed SSA and "
          "exact value equality on the scenario's evaluation points; programs with elementary functions are checked structurally by TLC and "
          "numerically by the reference interpreter",
          "the same scenarios are also executed with CSE off and on in Python and generated C++ and compared with the spec's values"]


def extract(mods, scn):
    """-> list of program events (python + c++) for one scenario, or {'error':...}"""
    import ssa
    import cpprep
    ui, python = mods["ui"], mods["python"]
    d = Definition(scn["def"])
    pts_proc, pts_sens = [], []
    for st in scn["steps"]:
        if st["act"] in ("ModelEval", "JacEval") and len(pts_proc) < 3:
            env = {c: d.calmap[c] for c in d.calib}
            env.update(named(st["x"]))
            env.update(named(st["u"]))
            env["dt"] = st["dt"]
            if env not in pts_proc:
                pts_proc.append(env)
        if st["act"] in ("SensEval", "ModelEval", "JacEval") and len(pts_sens) < 3:
            env = {c: d.calmap[c] for c in d.calib}
            env.update(named(st["x"]))
            if env not in pts_sens:
                pts_sens.append(env)
    events = []
    dropped = []

    def add(side, kind, key, inputs, prefix, outs, cse):
        events.append({"def": scn["def"], "kind": kind, "key": key or "", "inputs": inputs, "prefix": prefix, "outs": outs,
                       "points": pts_sens if kind.startswith("sens") else pts_proc, "side": side, "cse": cse})
    import pyrep
    for cse in (True, False):
        try:
            impl, model, symtab = pyrep.build_py(d, ui, python, cse, True)
        except Exception as e:
            return {"error": "python compile: " + repr(e)[:300]}
        blocks = [("model", None, impl._state_model._impl), ("procjac", None, impl._impl_process_jacobian)]
        if d.control:
            blocks.append(("ctrljac", None, impl._impl_control_jacobian))
        for key in sorted(d.sensors):
            blocks.append(("sensor", key, impl.sensor_models[key]._impl))
            blocks.append(("sensjac_py", key, impl._impl_sensor_jacobians[key]))
        for kind, key, blk in blocks:
            try:
                inputs, prefix, outs = ssa.python_program(blk)
                add("python", kind, key, inputs, prefix, outs, cse)
            except ssa.Unsupported as e:
                dropped.append("python %s: %s" % (kind, e))
    tmp = tempfile.mkdtemp(prefix="verif-c08-")
    try:
        h, s = cpprep.render(mods, d, True, tmp, kind="ekf")
        funcs = ssa.cpp_functions(open(s).read())
        so, co, ko = d.state, d.control, d.calib
        proc_inputs = ["dt"] + so + ko + co
        sens_inputs = so + ko

        def place(targets, outs, order=None, ncols=None):
            if order is not None:
                idx = {n: i for i, n in enumerate(order)}
                res = [None] * len(order)
                for t, o in zip(targets, outs):
                    res[idx[t]] = o
            else:
                nrows = max(int(t.split("(")[1].split(",")[0]) for t in targets) + 1
                res = [None] * (nrows * ncols)
                for t, o in zip(targets, outs):
                    i, j = [int(x) for x in t.split("(")[1].rstrip(")").split(",")]
                    res[i * ncols + j] = o
            if any(r is None for r in res):
                raise ssa.Unsupported("missing assignment targets")
            return res
        jobs = [("model", None, ("ExtendedKalmanFilterProcessModel", "model"), proc_inputs, dict(order=so)),
                ("procjac", None, ("ExtendedKalmanFilterProcessModel", "process_jacobian"), proc_inputs, dict(ncols=len(so)))]
        if co:
            jobs.append(("ctrljac", None, ("ExtendedKalmanFilterProcessModel", "control_jacobian"), proc_inputs, dict(ncols=len(co))))
        for key in sorted(d.sensors):
            T = key.title()
            jobs.append(("sensor", key, (T + "SensorModel", "model"), sens_inputs, dict(order=sorted(d.sensors[key]))))
            jobs.append(("sensjac_cpp", key, (T + "SensorModel", "jacobian"), sens_inputs, dict(ncols=len(so))))
        for kind, key, fkey, inputs, how in jobs:
            try:
                if fkey not in funcs:
                    raise ssa.Unsupported("function %s::%s not found in generated source" % fkey)
                prefix, targets, outs = ssa.cpp_program(funcs[fkey])
                add("cpp", kind, key, inputs, prefix, place(targets, outs, **how), True)
            except ssa.Unsupported as e:
                dropped.append("cpp %s: %s" % (kind, e))
    except Exception as e:
        return {"error": "cpp render: " + repr(e)[:300] + traceback.format_exc()[-400:]}
    finally:
        shutil.rmtree(tmp, ignore_errors=True)
    return {"events": events, "dropped": dropped}


def _interp_prog(prefix, outs, env):
    env = dict(env)
    for name, tree in prefix:
        env[name] = interp(tree, env)
    return [interp(o, env) for o in outs]


def cross_check_fn(scn, ev):
    """numeric check of programs with elementary functions against the spec's trees (reference interpreter)."""
    d = Definition(scn["def"])
    orig = None
    if ev["kind"] == "model":
        orig = [d.update[n] for n in d.state]
    elif ev["kind"] == "sensor":
        orig = [d.sensors[ev["key"]][r] for r in sorted(d.sensors[ev["key"]])]
    else:
        for st in scn["steps"]:
            if ev["kind"] == "procjac" and st["act"] == "JacEval" and named(st.get("Gt")):
                orig = [st["Gt"][r][c] for r in d.state for c in d.state]
            if ev["kind"] == "ctrljac" and st["act"] == "JacEval" and named(st.get("Vt")):
                orig = [st["Vt"][r][c] for r in d.state for c in d.control]
            if ev["kind"] == "sensjac_cpp" and st["act"] == "SensEval" and st["key"] == ev["key"] and named(st.get("Ht")):
                orig = [st["Ht"][r][c] for r in sorted(d.sensors[ev["key"]]) for c in d.state]
    if orig is None:
        return 0, None
    n = 0
    for env in ev["points"]:
        fenv = {k: fl(q) for k, q in env.items()}
        try:
            want = [interp(t, fenv) for t in orig]
            got = _interp_prog(ev["prefix"], ev["outs"], fenv)
            stable = [well_conditioned(t, fenv, w) for t, w in zip(orig, want)]
        except (ZeroDivisionError, ValueError, OverflowError):
            continue
        for w, g, ok_ in zip(want, got, stable):
            if not ok_:
                continue          # ill-conditioned original at this point: two correct programs may differ
            n += 1
            if abs(w - g) > 1e-9 * max(1.0, abs(w)):
                return n, {"expected": w, "observed": g, "env": fenv}
    return n, None


def run(ctx):
    quick = ctx.quick
    scns_r, st1 = scen.generate(ctx, None, ("MC_EKF", "MC_C08_sim.cfg"), sim_num=(40 if quick else 900), sim_depth=100)
    scns_f, st2 = scen.generate(ctx, None, ("MC_EKF", "MC_C08fn_sim.cfg"), sim_num=(16 if quick else 500), sim_depth=100)
    # large programs: 12-15 grown nodes, 3 states, up to 5 readings -- blocks with more than ten temporaries
    scns_b, st3 = scen.generate(ctx, None, ("MC_EKF", "MC_C08big_sim.cfg"), sim_num=(16 if quick else 300), sim_depth=140)
    # |shared term|: sqrt(t^2) around compound sub-expressions that are also used elsewhere and take both signs
    scns_a, st4 = scen.generate(ctx, None, ("MC_EKF", "MC_C08abs_sim.cfg"), sim_num=(16 if quick else 300), sim_depth=100)
    for s_, st_ in ((scns_r, st1), (scns_f, st2), (scns_b, st3), (scns_a, st4)):
        if s_ is None:
            ctx.violation("spec-invariant", st_["tlc_violation"][:800], st_)
    scns = (scns_b or []) + (scns_a or []) + (scns_r or []) + (scns_f or [])
    # fixed input of the recorded finding F1 (known_findings.json): exercised on every run
    c = json.load(open("/verif/corpus/F1_acos_tanh8.json"))["scenario"]
    c["_id"] = "corpus:F1_acos_tanh8"
    scns.append(c)
    # (1) values with CSE off and on, both back-ends, against the spec
    r_py = scen.replay_all(ctx, scns, cse_settings=(False, True), force_ekf=True)
    c_py = scen.record_results(ctx, r_py, key_prefix="py:")
    ncpp = 12 if quick else 160
    # (some of every family)
    fams_ = [f_ for f_ in (scns_b, scns_a, scns_r, scns_f) if f_]
    cpp_pick = []
    i_ = 0
    while len(cpp_pick) < ncpp and any(i_ < len(f_) for f_ in fams_):
        for f_ in fams_:
            if i_ < len(f_) and len(cpp_pick) < ncpp:
                cpp_pick.append(f_[i_])
        i_ += 1
    r_cpp = cppcheck.replay_cpp(ctx, cpp_pick, cse_settings=(False, True), kind="ekf")
    c_cpp = cppcheck.record(ctx, r_cpp, key_prefix="cpp:")
    # (2) translation validation of every extracted program
    res = workers.run_tasks([("props.c08", "extract", ({k: v for k, v in s.items() if not k.startswith("_")},), 600) for s in scns], procs=ctx.cores)
    events, owner = [], []
    ndrop = 0
    for s, (status, out) in zip(scns, res):
        if status != "ok" or "error" in out:
            ctx.dropped += 1
            ctx.notes.append(str(out)[-300:])
            continue
        ndrop += len(out["dropped"])
        for ev in out["events"]:
            events.append(ev)
            owner.append(s)
    ctx.log("%d programs extracted (%d python, %d c++), %d unparsable dropped" %
            (len(events), sum(1 for e in events if e["side"] == "python"), sum(1 for e in events if e["side"] == "cpp"), ndrop))
    traces = [[{k: e[k] for k in ("def", "kind", "key", "inputs", "prefix", "outs", "points")}] for e in events]
    verdicts, tres = [], None
    B = 400
    for i in range(0, len(traces), B):
        v, tres = trace.validate("CSE_Trace", traces[i:i + B], timeout=1800)
        verdicts += v
    nfn = 0
    with_tmp = 0
    for ev, s, v in zip(events, owner, verdicts):
        if ev["prefix"]:
            with_tmp += 1
        if v is not None:
            ctx.violation("%s:%s:not-equivalent-or-ill-formed" % (ev["side"], ev["kind"]),
                          "%s %s%s (cse=%s): the extracted program is rejected by CSE_Trace.tla (ill-formed SSA or a value differs from the original expression)" %
                          (ev["side"], ev["kind"], ":" + ev["key"] if ev["key"] else "", ev["cse"]),
                          {"scenario": {k: x for k, x in s.items() if not k.startswith("_")}, "program": {k: ev[k] for k in ("side", "kind", "key", "cse", "inputs", "prefix", "outs")}})
            continue
        n, bad = cross_check_fn(s, ev)
        nfn += n
        if bad:
            key = findings.KEY if findings.definition_has(s["def"]) else "%s:%s:value-differs" % (ev["side"], ev["kind"])
            ctx.violation(key, "%s %s " % (ev["side"], ev["kind"]) + json.dumps(bad)[:300],
                          {"scenario": {k: x for k, x in s.items() if not k.startswith("_")}, "program": {k: ev[k] for k in ("side", "kind", "key", "cse", "prefix", "outs")}})
    sample = next((e for e in events if e["prefix"]), events[0] if events else None)
    cov = {"programs": len(events), "disagreements_checked": len(events) + nfn,
           "samples": [{k: sample[k] for k in ("side", "kind", "key", "cse", "inputs", "prefix", "outs")}] if sample else [],
           "programs_with_temporaries": with_tmp, "unparsable_dropped": ndrop,
           "max_temporaries_in_one_program": max([len(e["prefix"]) for e in events] or [0]),
           "programs_with_more_than_10_temporaries": sum(1 for e in events if len(e["prefix"]) > 10),
           "states": st1.get("states", 0) + st2.get("states", 0) + st3.get("states", 0) + st4.get("states", 0) + (tres.distinct if tres else 0),
           "values_python": c_py, "values_cpp": c_cpp, "interp_values_cross_checked": nfn,
           "evaluations": len(events), "distinct_nontrivial": with_tmp,
           "rule": "program = one compiled block (model, process/control Jacobian, sensor model, sensor Jacobian) of one definition, Python with CSE "
                   "on and off and generated C++; non-trivial = has at least one temporary"}
    return finish(ctx, LEVEL, cov, ASSUME)


def replay(ctx, path):
    print("replay: re-run ./check C08")
    return 2
