---- MODULE MC_MF_Eq ----
EXTENDS ManagedFilter
cTimes == -2..2
cMaxDts == {1, 2}
cKeys == {"k1"}
====
