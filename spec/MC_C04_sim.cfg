INIT Init
NEXT Next
CONSTANTS
  Shapes <- cShapesNoSens
  SymNames <- cSyms
  NameSeq <- cNoSeq
  SensorNames <- cSensors
  ReadingNames <- cReadings
  Ops <- cOpsRat
  Consts <- cConsts
  MinGrow = 3
  MaxGrow = 5
  NPoints = 3
  Vals <- cValsInt
  Dts <- cDts2
  CalVals <- cCalVals
  PNoiseVals <- cPNoise
  SNoiseVals <- cSNoise
  Ks <- cKsNone
  PDiag <- cPDiag
  PVec <- cPVec
  ZDeltas <- cZDeltas
  Acts <- cActsPredict
  MinSteps = 6
  MaxSteps = 9
  RationalOnly = TRUE
  Twins = FALSE
  SetOnce = FALSE
  Chain = FALSE
  NeedDt = FALSE
  BindLeaves = TRUE
  EmitOn = TRUE
INVARIANT InvCovValid
INVARIANT InvRescaleControl
INVARIANT InvUpdate
INVARIANT InvReject
INVARIANT InvNisNonNeg
INVARIANT InvSPD
CHECK_DEADLOCK FALSE
