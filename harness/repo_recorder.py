"""pytest plugin (loaded with -p repo_recorder, PYTHONPATH=/verif/harness): records every ManagedFilter.tick executed by the
repository's OWN tests -- the filter calls it issued, with the held time, reading timestamps and output time -- as JSON lines
in $VERIF_RECORD_FILE.  Nothing in /repo is touched; formak.runtime.ManagedFilter is wrapped at configure time."""
import json
import os


class _Proxy:
    def __init__(self, real, log):
        object.__setattr__(self, "_real", real)
        object.__setattr__(self, "_log", log)

    def __getattr__(self, name):
        return getattr(self._real, name)

    def process_model(self, dt, state, covariance, control=None):
        self._log.append(["P", float(dt), 0])
        return self._real.process_model(dt, state, covariance, control)

    def sensor_model(self, *a, **kw):
        self._log.append(["S", str(kw.get("sensor_key")), 0])
        return self._real.sensor_model(*a, **kw)


def pytest_configure(config):
    import sys
    sys.path.insert(0, os.path.join(os.environ.get("VERIF_REPO", "/repo"), "py"))
    import formak.runtime as rt
    path = os.environ.get("VERIF_RECORD_FILE")
    if not path:
        return
    orig_init = rt.ManagedFilter.__init__
    orig_tick = rt.ManagedFilter.tick

    def init(self, ekf, start_time, state, covariance, calibration_map=None):
        self._verif_log = []
        orig_init(self, _Proxy(ekf, self._verif_log), start_time, state, covariance, calibration_map)

    def tick(self, output_time, *, control=None, readings=None):
        t0 = float(self.current_time)
        n0 = len(self._verif_log)
        rts = [float(r.timestamp) for r in (readings or [])]
        err = None
        try:
            return orig_tick(self, output_time, control=control, readings=readings)
        except BaseException as e:
            err = type(e).__name__
            raise
        finally:
            rec = {"test": os.environ.get("PYTEST_CURRENT_TEST", ""), "max_dt": float(self._impl.config.max_dt_sec), "t0": t0,
                   "readings": rts, "out": float(output_time), "ops": self._verif_log[n0:], "error": err,
                   "held_after": float(self.current_time)}
            with open(path, "a") as fh:
                fh.write(json.dumps(rec) + "\n")
    rt.ManagedFilter.__init__ = init
    rt.ManagedFilter.tick = tick
