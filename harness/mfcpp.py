"""Replay of ManagedFilter.tla behaviours into the real ManagedFilter.h through the recording Impl
(/verif/cxx/mf_driver.cpp), for all four control x calibration tag combinations."""
import os

import cppbuild

DRIVER = "/verif/cxx/mf_driver.cpp"
MAXNS = (1, 2, 3, 5, 7, 9, 16, 64)


def build_all(workdir, unit_expr="(1.0/1024.0)", extra_defines=()):
    """Build the four combinations.  Returns {(hc, hk): (exe or None, stderr)}."""
    jobs = []
    combos = [(hc, hk) for hc in (0, 1) for hk in (0, 1)]
    for hc, hk in combos:
        jobs.append({"sources": [DRIVER], "out": os.path.join(workdir, "mf_%d%d" % (hc, hk)),
                     "defines": ["HAS_CONTROL=%d" % hc, "HAS_CALIBRATION=%d" % hk, "UNIT_SCALE=%s" % unit_expr] + list(extra_defines)})
    res = cppbuild.compile_many(jobs)
    out = {}
    for (hc, hk), job, (ok, err) in zip(combos, jobs, res):
        out[(hc, hk)] = (job["out"] if ok else None, err)
    return out


def encode(scns, keyidx):
    lines = []
    for s in scns:
        lines.append("SCN %d %d %d" % (s["max"], s["t0"], len(s["ticks"])))
        for tk in s["ticks"]:
            lines.append("TICK %d %d %d" % (tk["out"], 1 if tk["ctl"] else 0, len(tk["rs"])))
            for r in tk["rs"]:
                lines.append("R %d %d %d" % (r["t"], keyidx[r["key"]], r["id"]))
    return "\n".join(lines) + "\n"


def parse_output(text):
    """-> {(scn, tick): [ops]} with ops ('P', dt, c) / ('S', keyidx, id); kinds X/Y flag a wrong calibration"""
    out = {}
    for line in text.splitlines():
        if not line.startswith("RET "):
            continue
        head, _, body = line.partition(":")
        _, scn, tick = head.split()
        toks = body.split()
        ops = []
        i = 0
        while i < len(toks):
            k = toks[i]
            if k in ("P", "X"):
                ops.append((k, float.fromhex(toks[i + 1]), int(toks[i + 2])))
            else:
                ops.append((k, int(toks[i + 1]), int(toks[i + 2])))
            i += 3
        out[(int(scn), int(tick))] = ops
    return out


def run_combo(exe, scns, keyidx, offset=0.0):
    rc, so, se = cppbuild.run_exe(exe, encode(scns, keyidx), timeout=600, args=([float(offset).hex()] if offset else []))
    if rc != 0:
        raise RuntimeError("mf driver exit %d: %s" % (rc, se[-500:]))
    return parse_output(so)
