#!/bin/sh
# Run every C++ generator script of the repository (they are Bazel genrule inputs, not pytest tests)
# and report which succeed on the current working tree.
T=$(mktemp -d /tmp/repogen.XXXXXX)
mkdir -p $T/generated/formak
cd /repo
for f in py/test/unit/cpp/generator_ekf_no_cse.py py/test/unit/cpp/generator_with_calibration.py py/test/unit/cpp/generator_ekf_cse.py \
  py/test/unit/cpp/generator_ekf_with_calibration.py py/test/unit/cpp/generator.py py/test/unit/cpp/generator_ekf.py \
  featuretests/rocket_model/generator.py featuretests/managed_filter/generator.py featuretests/common_subexpression_elimination/gen_no_cse.py \
  featuretests/common_subexpression_elimination/gen_cse.py featuretests/cpp_library_for_model_evaluation/generator.py \
  featuretests/cpp_library_for_model_evaluation/generator_ekf.py featuretests/innovation_filtering/generator.py; do
  rm -f $T/generated/formak/x.h $T/generated/formak/x.cpp
  if PYTHONPATH=/repo/py timeout 600 /venv/bin/python $f --header $T/generated/formak/x.h --source $T/generated/formak/x.cpp --namespace ns > $T/log 2>&1 && test -s $T/generated/formak/x.h; then
    echo "OK   $f"
  else
    echo "FAIL $f: $(tail -1 $T/log | cut -c1-160)"
  fi
done
rm -rf $T
