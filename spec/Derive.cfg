INIT Init
NEXT Next
CHECK_DEADLOCK FALSE
