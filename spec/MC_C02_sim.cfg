INIT Init
NEXT Next
CONSTANTS
  Shapes <- cShapesAll
  SymNames <- cSymsCluster
  NameSeq <- cNoSeq
  SensorNames <- cSensors
  ReadingNames <- cReadings
  Ops <- cOpsAll
  Consts <- cConsts
  MinGrow = 3
  MaxGrow = 7
  NPoints = 3
  Vals <- cVals
  Dts <- cDts
  CalVals <- cCalVals
  PNoiseVals <- cPNoise
  SNoiseVals <- cSNoise
  Ks <- cKsNone
  PDiag <- cPDiag
  PVec <- cPVec
  ZDeltas <- cZDeltas
  Acts <- cActsEval
  MinSteps = 5
  MaxSteps = 8
  RationalOnly = FALSE
  Twins = FALSE
  SetOnce = FALSE
  Chain = FALSE
  NeedDt = FALSE
  BindLeaves = TRUE
  EmitOn = TRUE
INVARIANT InvCovValid
INVARIANT InvUpdate
INVARIANT InvReject
INVARIANT InvNisNonNeg
INVARIANT InvSPD
CHECK_DEADLOCK FALSE
