INIT Init
NEXT Next
CONSTANTS
  Shapes <- cShapesMix
  SymNames <- cSymsCluster
  NameSeq <- cNoSeq
  SensorNames <- cSensors
  ReadingNames <- cReadings
  Ops <- cOpsE
  Consts <- cConsts
  MinGrow = 5
  MaxGrow = 7
  NPoints = 3
  Vals <- cVals
  Dts <- cDts
  CalVals <- cCalVals
  PNoiseVals <- cPNoise
  SNoiseVals <- cSNoise
  Ks <- cKsNone
  PDiag <- cPDiag
  PVec <- cPVec
  ZDeltas <- cZDeltas
  Acts <- cActsEval
  MinSteps = 5
  MaxSteps = 8
  RationalOnly = TRUE
  Twins = FALSE
  SetOnce = FALSE
  Chain = TRUE
  NeedDt = FALSE
  BindLeaves = FALSE
  EmitOn = TRUE
INVARIANT InvCovValid
INVARIANT InvUpdate
INVARIANT InvReject
INVARIANT InvNisNonNeg
INVARIANT InvSPD
CHECK_DEADLOCK FALSE
