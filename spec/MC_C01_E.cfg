INIT Init
NEXT Next
CONSTANTS
  Shapes <- cShapes
  SymNames <- cSyms
  NameSeq <- cSeq
  SensorNames = {}
  ReadingNames = {}
  Ops <- cOps
  Consts <- cConsts
  MinGrow = 0
  MaxGrow = 1
  NPoints = 2
  Vals <- cVals
  Dts <- cDts
  CalVals <- cCalVals
  PNoiseVals <- cOne
  SNoiseVals <- cOne
  Ks <- cKs
  PDiag <- cInts
  PVec <- cInts
  ZDeltas <- cOne
  Acts <- cActs
  MinSteps = 2
  MaxSteps = 2
  RationalOnly = FALSE
  Twins = FALSE
  SetOnce = FALSE
  Chain = FALSE
  NeedDt = FALSE
  BindLeaves = TRUE
  EmitOn = TRUE
CHECK_DEADLOCK FALSE
