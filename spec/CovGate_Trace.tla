---------------------------- MODULE CovGate_Trace ----------------------------
(* a trace is a history of one filter: events [kind, outcome in {"ok","refused"}, valid_in, valid_out] *)
EXTENDS CovGate, IOUtils, TLCExt
Traces == JsonDeserialize(IOEnv.TRACE_FILE)
VARIABLES tid, l
ASSUME \A t \in 1..Len(Traces) : TLCSet(t, 0)
Ev == Traces[tid][l]
TInit == tid \in 1..Len(Traces) /\ l = 1 /\ Init
TStep == /\ l <= Len(Traces[tid])
         /\ Ev.valid_in = valid
         /\ Ev.outcome = "ok" /\ Ev.valid_out = TRUE
         /\ Step(Ev.kind)
         /\ l' = l + 1 /\ UNCHANGED tid
TNext == TStep
Reach == TLCSet(tid, IF TLCGet(tid) < l THEN l ELSE TLCGet(tid))
Post == \A t \in 1..Len(Traces) :
          IF TLCGet(t) = Len(Traces[t]) + 1 THEN PrintT(<<"ACCEPT", t>>)
          ELSE PrintT(<<"REJECT", t, TLCGet(t)>>)
=============================================================================
