---- MODULE MC_MF_E1 ----
(* exhaustive, emitting: every single tick (and every pair tick;tick without readings in the 2nd)
   from every start time, <=2 readings, one key, max_dt in {1,2,3}, with/without control *)
EXTENDS ManagedFilter
cTimes == -3..3
cMaxDts == {1, 2, 3}
cKeys == {"k1"}
====
