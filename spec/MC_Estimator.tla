---- MODULE MC_Estimator ----
EXTENDS Estimator
cUniverses == << [controls |-> {}, controls2 |-> {}, sensors |-> ("pos" :> {"p"})],
                 [controls |-> {"a"}, controls2 |-> {"thrust"}, sensors |-> ("pos" :> {"p"}) @@ ("vel2" :> {"q", "r"})],
                 [controls |-> {"a", "B"}, controls2 |-> {"u1", "U2"}, sensors |-> ("pos" :> {"p"}) @@ ("vel2" :> {"q", "r"}) @@ ("Alt" :> {"h", "R2", "zz"})] >>
cConfigVals == [common_subexpression_elimination |-> {"true", "false"},
                python_modules |-> {"default"},
                extra_validation |-> {"false"},
                max_dt_sec |-> {"0.1", "0.05"},
                innovation_filtering |-> {"none", "5.0", "2.5"}]
====
