------------------------------ MODULE PlanProof ------------------------------
(***************************************************************************)
(* Unbounded arithmetic core of ManagedFilter!Plan, for Apalache (SMT):    *)
(* for ALL integers from, to and every positive maximum step m, the plan   *)
(*    n = |d| div m full steps of sign(d)*m, then the remainder r          *)
(* is directed, bounded, sums to d and is empty iff d = 0.                 *)
(***************************************************************************)
EXTENDS Integers
VARIABLES
  \* @type: Int;
  from,
  \* @type: Int;
  to,
  \* @type: Int;
  m
AbsI(x) == IF x < 0 THEN -x ELSE x
Sgn(x) == IF x < 0 THEN -1 ELSE IF x > 0 THEN 1 ELSE 0
Init == from \in Int /\ to \in Int /\ m \in Int /\ m > 0
Next == UNCHANGED <<from, to, m>>
D == to - from
N == AbsI(D) \div m
R == D - Sgn(D) * N * m
PlanArithmetic ==
  /\ N >= 0
  /\ AbsI(R) < m                              \* the remainder step is shorter than the maximum step
  /\ (R # 0 => Sgn(R) = Sgn(D))               \* and points in the direction of travel
  /\ Sgn(D) * N * m + R = D                   \* n full steps and the remainder sum to the time difference
  /\ ((N = 0 /\ R = 0) <=> D = 0)             \* no step at all iff the two times coincide
=============================================================================
